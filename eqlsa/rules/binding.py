"""
C02 / C16: the binding discipline every operator must obey for an implicit join to be a join.

BIND-THREAD  the binding handed to an operand is at least the binding the enclosing generator received, and - inside a
             loop over a sibling's results - derives from that sibling's result
BIND-KEEP    the whole of what a child evaluation bound flows into what is yielded, not a projection of it
PRODUCT      unbound selected variables are completed by an all-combinations combinator, not a lock-step one
"""
from __future__ import annotations

import ast
from typing import Dict, List, Optional, Set, Tuple

from ..db import ProgramDB, FuncInfo, ClassInfo, AnalysisError, unparse, own_nodes, dotted
from ..facts import own_calls, call_attr, call_name, local_defs, resolve_call_target, fn_params, bind_args
from ..framework import inst, HOLDS, VIOLATION, UNDECIDED, INFO, Instance
from ..evalsites import site_model, EvalSite, is_eval_name, SiteModel
from .values import site_role


def names_in(e: ast.AST) -> Set[str]:
    return {n.id for n in ast.walk(e) if isinstance(n, ast.Name)}


def binding_params(fn: FuncInfo) -> Set[str]:
    out = set()
    a = fn.node.args
    for p in a.posonlyargs + a.args + a.kwonlyargs:
        ann = unparse(p.annotation) if p.annotation is not None else ""
        if p.arg == "sources" or ("Dict[int, HashedValue]" in ann and "str" not in ann):
            out.add(p.arg)
    return out


def derived_closure(fn: FuncInfo, roots: Set[str], scope: ast.AST = None) -> Set[str]:
    """Names that (flow-insensitively) derive from the roots: assigned from an expression mentioning a derived name, or
    updated with one (`d.update(x)`, `d[k] = x`)."""
    derived = set(roots)
    defs = local_defs(fn)
    nodes = list(own_nodes(fn.node))
    changed = True
    while changed:
        changed = False
        for name, vals in defs.items():
            if name in derived:
                continue
            for v in vals:
                e = v if isinstance(v, ast.AST) else (v[1] if isinstance(v, tuple) and len(v) > 1 and isinstance(v[1], ast.AST) else None)
                if isinstance(v, tuple) and v[0] == "unpack" and isinstance(v[1], tuple):
                    e = v[1][1] if isinstance(v[1][1], ast.AST) else None
                if e is not None and names_in(e) & derived:
                    derived.add(name)
                    changed = True
                    break
        for n in nodes:
            if isinstance(n, ast.Call) and isinstance(n.func, ast.Attribute) and n.func.attr == "update" \
                    and isinstance(n.func.value, ast.Name) and n.func.value.id not in derived:
                if any(names_in(a) & derived for a in n.args):
                    derived.add(n.func.value.id)
                    changed = True
    return derived


def loop_targets(loop: ast.AST) -> Set[str]:
    return {n.id for n in ast.walk(loop.target) if isinstance(n, ast.Name)}


THREAD_EXCEPTIONS = {
    "Variable._update_domain_": "evaluates a *domain expression*, which by design is unbound",
}


def rule_bind_thread(db: ProgramDB) -> List[Instance]:
    out = []
    model = site_model(db)
    for s in model.sites:
        fn = s.fn
        if fn.short in THREAD_EXCEPTIONS:
            out.append(inst("BIND-THREAD", INFO, fn, s.key, f"frozen exception: {THREAD_EXCEPTIONS[fn.short]}", line=s.line))
            continue
        bparams = binding_params(fn)
        if not bparams and not s.loops:
            # public entries: no incoming binding
            if fn.name == "evaluate":
                out.append(inst("BIND-THREAD", INFO, fn, s.key, "public entry: there is no incoming binding", line=s.line))
                continue
        if s.binding is None:
            if bparams or s.loops:
                out.append(inst("BIND-THREAD", VIOLATION, fn, s.key,
                                f"the operand is evaluated with no binding although `{sorted(bparams) or 'a sibling result'}` is "
                                f"in scope: variables that are already bound are enumerated again (a join becomes a product)",
                                line=s.line))
            else:
                out.append(inst("BIND-THREAD", INFO, fn, s.key, "no incoming binding in scope", line=s.line))
            continue
        bn = names_in(s.binding)
        if isinstance(s.binding, ast.Constant) or (isinstance(s.binding, ast.Dict) and not s.binding.keys):
            out.append(inst("BIND-THREAD", VIOLATION, fn, s.key,
                            f"the operand is evaluated under `{unparse(s.binding)}`: the incoming binding is dropped",
                            line=s.line))
            continue
        if s.loops:
            inner = s.loops[-1]
            roots = loop_targets(inner)
            derived = derived_closure(fn, roots)
            ok = bool(bn & derived)
            # the derived name must be derived *inside* that loop (assigned in the loop body) or be the target itself
            if ok and not (bn & roots):
                assigned_in_loop = {t.id for n in ast.walk(inner) if isinstance(n, (ast.Assign, ast.AugAssign))
                                    for t in (n.targets if isinstance(n, ast.Assign) else [n.target]) if isinstance(t, ast.Name)}
                updated_in_loop = {n.func.value.id for n in ast.walk(inner) if isinstance(n, ast.Call)
                                   and isinstance(n.func, ast.Attribute) and n.func.attr == "update"
                                   and isinstance(n.func.value, ast.Name)}
                ok = bool(bn & derived & (assigned_in_loop | updated_in_loop))
            out.append(inst("BIND-THREAD", HOLDS if ok else VIOLATION, fn, s.key,
                            f"inside the loop over `{unparse(inner.iter)[:40]}` the operand receives `{unparse(s.binding)}`, "
                            f"which carries the sibling result `{', '.join(sorted(roots))}`" if ok else
                            f"inside the loop over `{unparse(inner.iter)[:40]}` the operand receives `{unparse(s.binding)}`, which "
                            f"does not carry the sibling result `{', '.join(sorted(roots))}`: the operand is enumerated "
                            f"independently of it (a join becomes a product)", line=s.line))
            continue
        derived = derived_closure(fn, bparams)
        ok = bool(bn & derived)
        out.append(inst("BIND-THREAD", HOLDS if ok else VIOLATION, fn, s.key,
                        f"the operand receives `{unparse(s.binding)}`, derived from the incoming `{', '.join(sorted(bparams))}`" if ok else
                        f"the operand receives `{unparse(s.binding)}`, which does not derive from the incoming "
                        f"`{', '.join(sorted(bparams))}`", line=s.line))
    out.extend(_helper_sites(db, model))
    out.extend(_carries_incoming(db, model))
    out.extend(_merged_before_handed_on(db, model))
    return out


def _on_every_path_to(db: ProgramDB, x: ast.AST, site: ast.AST, loop: ast.AST) -> bool:
    """x (inside `loop`, before `site`) is executed on every path from the head of the loop to `site`: every branch that contains x
    contains the site as well (same arm)."""
    def chain(n):
        res = []
        ch, p = n, db.parent(n)
        while p is not None and ch is not loop:
            if isinstance(p, (ast.If, ast.Try, ast.For, ast.While, ast.With)):
                for fld in ("body", "orelse", "finalbody", "handlers"):
                    blk = getattr(p, fld, None) or []
                    if any(b is ch for b in blk):
                        res.append((id(p), fld))
                if isinstance(p, ast.ExceptHandler):
                    pass
            if isinstance(p, ast.ExceptHandler):
                res.append((id(p), "handler"))
            ch, p = p, db.parent(p)
        return res
    cs = set(chain(site))
    return all(c in cs or c[0] == id(loop) for c in chain(x))


def _merged_before_handed_on(db: ProgramDB, model: SiteModel) -> List[Instance]:
    """A contradiction rule.  An operator that merges the incoming binding into the row of its operand (`row.update(sources)`) on one path
    before it hands the row on believes that the row may lack it (the row of a boolean attribute or of a predicate over a variable that is
    not bound yet holds only what that operand bound).  Then every path that hands the same row on has to merge first: a false row of a
    conjunction handed to the enclosing or_ without the outer binding is taken for a repeat of the false row for another outer value, and
    the or_ never tries its right side for that value."""
    out = []
    for fn in sorted(db.all_functions(), key=lambda f: f.qualname):
        if not fn.is_generator or fn.cls is None or not is_eval_name(fn.name):
            continue
        bparams = binding_params(fn)
        if not bparams:
            continue
        merges = [c for c in own_nodes(fn.node) if isinstance(c, ast.Call) and isinstance(c.func, ast.Attribute) and c.func.attr == "update"
                  and isinstance(c.func.value, ast.Name) and c.args and isinstance(c.args[0], ast.Name) and c.args[0].id in bparams]
        for r in sorted({c.func.value.id for c in merges}):
            loops = [l for l in own_nodes(fn.node) if isinstance(l, ast.For) and r in loop_targets(l)]
            if len(loops) != 1:
                continue
            loop = loops[0]
            mine = [c for c in merges if c.func.value.id == r and any(c is x for x in ast.walk(loop))]
            hands = []
            for y in ast.walk(loop):
                if isinstance(y, ast.Yield) and y.value is not None:
                    v = y.value
                    if isinstance(v, ast.Call) and dotted(v.func) in ("copy", "dict") and v.args:
                        v = v.args[0]
                    if isinstance(v, ast.Name) and v.id == r:
                        hands.append(y)
            for k, y in enumerate(sorted(hands, key=lambda n: (n.lineno, n.col_offset))):
                ok = any((c.lineno, c.col_offset) < (y.lineno, y.col_offset) and _on_every_path_to(db, c, y, loop) for c in mine)
                out.append(inst("BIND-THREAD", HOLDS if ok else VIOLATION, fn, f"{fn.short}[yield {r} #{k + 1}][merged with the incoming binding first]",
                                f"`{r}` is completed with `{', '.join(sorted(bparams))}` on every path before it is handed on" if ok else
                                f"`{r}` is completed with the incoming `{', '.join(sorted(bparams))}` on another path of this loop (line {mine[0].lineno}), but handed on here without: "
                                f"the row of an operand holds only what the operand bound, so this row lacks the bindings made outside - below an or_ under an outer variable the "
                                f"false row for the second outer value is taken for a repeat of the first, and the right side of the or_ is never tried for it", line=y.lineno))
    return out


def _carries_incoming(db: ProgramDB, model: SiteModel) -> List[Instance]:
    """A child evaluated under the incoming binding yields rows that hold what the child bound - not necessarily the incoming
    binding itself (a boolean attribute / method call / predicate over a variable that is not bound yet yields only what it
    bound).  An operator that hands such a row to a SIBLING operand as its binding therefore merges the incoming binding
    into it first, otherwise the sibling enumerates variables that are bound outside (and the enclosing operator relabels
    the rows with its own values)."""
    out = []
    n = 0
    for s in model.sites:
        fn = s.fn
        bparams = binding_params(fn)
        if not s.loops or not bparams or s.binding is None or not isinstance(s.loops[-1], ast.For):
            continue
        inner = s.loops[-1]
        # the stream of the loop was evaluated under the incoming binding itself
        stream_calls = [c for c in ast.walk(inner.iter) if isinstance(c, ast.Call) and is_eval_name(call_attr(c) or "")]
        if isinstance(inner.iter, ast.Name):
            for d in local_defs(fn).get(inner.iter.id, []):
                if isinstance(d, ast.AST):
                    stream_calls += [c for c in ast.walk(d) if isinstance(c, ast.Call) and is_eval_name(call_attr(c) or "")]
        under_incoming = any(c.args and isinstance(c.args[0], ast.Name) and c.args[0].id in bparams for c in stream_calls)
        if not under_incoming:
            continue
        roots = loop_targets(inner)
        bn = names_in(s.binding)
        if not (bn & derived_closure(fn, roots)):
            continue        # BIND-THREAD proper reports this
        # which names carry the incoming binding at the site
        carriers: Set[str] = set(bparams)
        changed = True
        while changed:
            changed = False
            for x in ast.walk(inner):
                if getattr(x, "lineno", 0) > s.line:
                    continue
                if isinstance(x, (ast.Call, ast.Assign)) and not _on_every_path_to(db, x, s.call, inner):
                    continue        # made in a branch the site is not in: not made on the way to the site
                if isinstance(x, ast.Call) and isinstance(x.func, ast.Attribute) and x.func.attr == "update" and isinstance(x.func.value, ast.Name) \
                        and x.args and names_in(x.args[0]) & carriers and x.func.value.id not in carriers:
                    carriers.add(x.func.value.id)
                    changed = True
                if isinstance(x, ast.Assign) and len(x.targets) == 1 and isinstance(x.targets[0], ast.Name) and x.targets[0].id not in carriers:
                    v = x.value
                    if (isinstance(v, ast.Dict) and any(k is None and names_in(val) & carriers for k, val in zip(v.keys, v.values))) \
                            or (isinstance(v, ast.Call) and dotted(v.func) in ("copy", "dict") and v.args and names_in(v.args[0]) & carriers) \
                            or (isinstance(v, ast.BinOp) and isinstance(v.op, ast.BitOr) and names_in(v) & carriers):
                        carriers.add(x.targets[0].id)
                        changed = True
        n += 1
        b = s.binding
        ok = bool(bn & carriers) or (isinstance(b, ast.Dict) and any(k is None and names_in(val) & carriers for k, val in zip(b.keys, b.values)))
        out.append(inst("BIND-THREAD", HOLDS if ok else VIOLATION, fn, s.key + "[carries the incoming binding]",
                        f"`{unparse(s.binding)}` holds the row of the sibling merged with the incoming `{', '.join(sorted(bparams))}`" if ok else
                        f"`{unparse(s.binding)}` is the row of the sibling alone: the incoming `{', '.join(sorted(bparams))}` is not merged into it, and a "
                        f"sibling that bound only its own variable (a boolean attribute, method call or predicate over a variable that is not "
                        f"bound yet) lets this operand enumerate the variables bound outside - and_(a.x <= 2, not_(and_(b.even(), a.x < b.x))) "
                        f"returns pairs for which the condition is false", line=s.line))
    if n < 4:
        raise AnalysisError(f"only {n} operand(s) evaluated under a sibling's row found (the conjunction, the alternatives and the comparison were confirmed by reading)")
    return out


def _helper_sites(db: ProgramDB, model: SiteModel) -> List[Instance]:
    """Calls of the class's own binding-threading helpers (generators that take a binding and evaluate further expressions
    under it: the sequential binders of selected variables / constructor arguments / unbound condition variables) from
    inside a loop over an evaluation stream: the row of that loop has to be handed to the helper, otherwise what the helper
    evaluates is not correlated with the row (the fields of two assignments are mixed)."""
    out = []
    se = db.cls("SymbolicExpression")
    for c in [se] + se.all_subclasses():
        for fn in c.methods.values():
            for call in own_calls(fn):
                f = call.func
                if not (isinstance(f, ast.Attribute) and isinstance(f.value, ast.Name) and f.value.id == "self"):
                    continue
                if is_eval_name(f.attr):
                    continue
                callee = c.lookup(f.attr)
                if callee is None or not callee.is_generator:
                    continue
                cb = binding_params(callee)
                if not cb:
                    continue
                loops = model._enclosing_stream_loops(fn, call)
                if not loops:
                    continue
                inner = loops[-1]
                if inner.iter is call or any(x is call for x in ast.walk(inner.iter)):
                    continue
                roots = loop_targets(inner)
                derived = derived_closure(fn, roots)
                assigned_in_loop = {t.id for n in ast.walk(inner) if isinstance(n, (ast.Assign, ast.AugAssign))
                                    for t in (n.targets if isinstance(n, ast.Assign) else [n.target]) if isinstance(t, ast.Name)}
                updated_in_loop = {n.func.value.id for n in ast.walk(inner) if isinstance(n, ast.Call)
                                   and isinstance(n.func, ast.Attribute) and n.func.attr == "update"
                                   and isinstance(n.func.value, ast.Name)}
                carried = roots | (derived & (assigned_in_loop | updated_in_loop))
                args = list(call.args) + [k.value for k in call.keywords]
                ok = any(names_in(a) & carried for a in args)
                key = f"{fn.short}[self.{f.attr}({', '.join(unparse(a)[:24] for a in args)})]"
                out.append(inst("BIND-THREAD", HOLDS if ok else VIOLATION, fn, key,
                                f"inside the loop over `{unparse(inner.iter)[:40]}` the helper `{f.attr}` is handed the row of that loop "
                                f"(`{', '.join(sorted(roots))}`)" if ok else
                                f"inside the loop over `{unparse(inner.iter)[:40]}` the helper `{f.attr}` (which evaluates further "
                                f"expressions under the binding it is given) is not handed the row `{', '.join(sorted(roots))}` of "
                                f"that loop: what it evaluates is enumerated independently of the row, so values of different "
                                f"assignments are combined", line=call.lineno))
    return out


# ---------------------------------------------------------------------------------- BIND-KEEP
KEEP_EXCEPTIONS = {
    ("ForAll._evaluate__", "condition"): "projects the universal variable away by definition",
    ("Concatenate._evaluate__", None): "aggregates all bindings into one row",
    ("The._evaluate_", None): "keeps the single solution as a whole (`result = sol`)",
}


def _whole_names(fn: FuncInfo, loop: ast.AST, roots: Set[str]) -> Set[str]:
    """Names that hold the *whole* of a root binding: the root itself, copies of it, dicts updated with it."""
    whole = set(roots)
    body_nodes = [n for s in loop.body for n in ast.walk(s)] if isinstance(loop, ast.For) else []
    # statements after the loop in the same function are not considered: the loop variable's row is produced inside
    changed = True

    def is_whole_expr(e: ast.AST) -> bool:
        if isinstance(e, ast.Name):
            return e.id in whole
        if isinstance(e, ast.Call):
            d = dotted(e.func) or ""
            if d in ("copy", "dict", "copy.copy") and len(e.args) == 1:
                return is_whole_expr(e.args[0])
            if isinstance(e.func, ast.Attribute) and e.func.attr == "copy" and not e.args:
                return is_whole_expr(e.func.value)
        if isinstance(e, ast.Dict):
            return any(k is None and is_whole_expr(v) for k, v in zip(e.keys, e.values))
        return False

    while changed:
        changed = False
        for n in body_nodes:
            if isinstance(n, ast.Assign) and len(n.targets) == 1 and isinstance(n.targets[0], ast.Name):
                if n.targets[0].id not in whole and is_whole_expr(n.value):
                    whole.add(n.targets[0].id)
                    changed = True
            elif isinstance(n, ast.Call) and isinstance(n.func, ast.Attribute) and n.func.attr == "update" \
                    and isinstance(n.func.value, ast.Name) and n.func.value.id not in whole:
                if any(is_whole_expr(a) for a in n.args):
                    whole.add(n.func.value.id)
                    changed = True
            elif isinstance(n, ast.For) and n is not loop:
                # `for d in kwargs.values(): values.update(d)`  (a dict of whole bindings)
                if isinstance(n.iter, ast.Call) and isinstance(n.iter.func, ast.Attribute) and n.iter.func.attr == "values" \
                        and is_whole_expr(n.iter.func.value) and isinstance(n.target, ast.Name) and n.target.id not in whole:
                    whole.add(n.target.id)
                    changed = True
    return whole


def _outputs_of_loop(fn: FuncInfo, loop: ast.For) -> List[Tuple[ast.AST, List[ast.AST]]]:
    """(node, [expressions handed on]) for each yield / yield from / return inside the loop body."""
    outs = []
    for s in loop.body:
        for n in [s] + list(own_nodes(s)):
            if isinstance(n, ast.Yield) and n.value is not None:
                outs.append((n, [n.value]))
            elif isinstance(n, ast.YieldFrom):
                v = n.value
                if isinstance(v, ast.Call):
                    args = list(v.args) + [k.value for k in v.keywords]
                    outs.append((n, args))
                else:
                    outs.append((n, [v]))
            elif isinstance(n, ast.Return) and n.value is not None:
                outs.append((n, [n.value]))
    return outs


def rule_bind_keep(db: ProgramDB) -> List[Instance]:
    out = []
    model = site_model(db)
    seen = 0
    for fn in sorted(db.all_functions(), key=lambda f: f.qualname):
        for loop in model.stream_loops(fn):
            if not isinstance(loop, ast.For):
                continue
            roots = loop_targets(loop)
            key = f"{fn.short}[for {unparse(loop.target)} in {unparse(loop.iter)[:40]}]"
            exc = None
            for (fname, hint), why in KEEP_EXCEPTIONS.items():
                if fn.short == fname and (hint is None or hint in unparse(loop.iter)):
                    exc = why
            if exc:
                out.append(inst("BIND-KEEP", INFO, fn, key, f"frozen exception: {exc}", line=loop.lineno))
                continue
            outs = _outputs_of_loop(fn, loop)
            if not outs:
                out.append(inst("BIND-KEEP", INFO, fn, key, "the loop hands no row on (no yield/return inside)", line=loop.lineno))
                continue
            seen += 1
            whole = _whole_names(fn, loop, roots)
            derived = derived_closure(fn, roots)
            bad = None
            n_out = 0
            for node, exprs in outs:
                n_out += 1
                keeps = False
                for e in exprs:
                    if isinstance(e, ast.Name) and e.id in whole:
                        keeps = True
                    if isinstance(e, ast.Starred) and isinstance(e.value, ast.Name) and e.value.id in whole:
                        keeps = True
                    if isinstance(e, ast.Tuple) and any(isinstance(x, ast.Name) and x.id in whole for x in e.elts):
                        keeps = True
                    if isinstance(e, ast.Call) and (dotted(e.func) in ("copy", "dict")) and e.args \
                            and isinstance(e.args[0], ast.Name) and e.args[0].id in whole:
                        keeps = True
                    if isinstance(e, ast.Dict) and any(isinstance(v, ast.Name) and v.id in whole
                                                       for k, v in zip(e.keys, e.values)):
                        keeps = True      # merged (**r) or carried as a whole under a name ({name: r})
                if not keeps:
                    bad = (node, exprs)
                    break
            if n_out == 0:
                out.append(inst("BIND-KEEP", INFO, fn, key, "rows handed on inside the loop do not depend on the loop variable",
                                line=loop.lineno))
                continue
            if bad is None:
                out.append(inst("BIND-KEEP", HOLDS, fn, key,
                                f"everything `{', '.join(sorted(roots))}` binds flows into each row handed on "
                                f"(whole-binding carriers: {sorted(whole)})", line=loop.lineno))
            else:
                node, exprs = bad
                out.append(inst("BIND-KEEP", VIOLATION, fn, key,
                                f"`{unparse(node)[:70]}` hands on a row built from a projection of `{', '.join(sorted(roots))}` "
                                f"(e.g. a single id), not from the whole binding: whatever else the child bound on the way "
                                f"(the parent of a flattened attribute, a joined variable) is discarded and later re-completed "
                                f"by a free product", line=node.lineno))
    if seen < 12:
        out.append(inst("BIND-KEEP", UNDECIDED, "", "loops", f"only {seen} loops over evaluation streams hand rows on "
                                                                f"(>= 12 confirmed by reading)"))
    return out


# ---------------------------------------------------------------------------------- PRODUCT
def combinator_class(db: ProgramDB, fn: FuncInfo, depth=0) -> Tuple[str, str]:
    """'product' | 'lockstep' | 'unknown' for a function that combines several streams into rows."""
    src_calls = own_calls(fn)
    # names that stand for the collection of streams: parameters and what is derived from them
    stream_names = derived_closure(fn, set(fn.params))
    for c in src_calls:
        d = dotted(c.func) or ""
        last = d.split(".")[-1]
        if last in ("zip", "zip_longest") and any(isinstance(a, ast.Starred) and names_in(a.value) & stream_names for a in c.args):
            return "lockstep", f"uses {d}(*streams): the streams are advanced in lock-step, rows stop at the shortest"
        if last == "islice" and c.args and names_in(c.args[0]) & stream_names:
            return "lockstep", f"uses {d}: a stream is truncated"
    for c in src_calls:
        d = dotted(c.func) or ""
        if d.split(".")[-1] == "product":
            if any(isinstance(a, ast.Starred) for a in c.args):
                return "product", f"itertools.product over all streams"
    # recursive nested iteration: for x in <first stream>: for/yield-from rest (recursive call on the remaining streams)
    for loop in [n for n in own_nodes(fn.node) if isinstance(n, ast.For)]:
        for c in ast.walk(loop):
            if isinstance(c, ast.Call):
                t = resolve_call_target(db, fn, c)
                nm = call_name(c)
                if (isinstance(t, FuncInfo) and t.qualname == fn.qualname) or (nm == fn.name and isinstance(c.func, ast.Attribute)):
                    return "product", "recursive nested iteration: every remaining stream is iterated inside the loop over the first"
    # delegation to nested helper generators
    if depth < 2:
        kinds = []
        for nd in fn.nested.values():
            kinds.append(combinator_class(db, nd, depth + 1))
        for k, why in kinds:
            if k == "lockstep":
                return k, why
        for k, why in kinds:
            if k == "product":
                return k, f"nested helper: {why}"
        for c in src_calls:
            t = resolve_call_target(db, fn, c)
            if isinstance(t, FuncInfo) and t.qualname != fn.qualname and t.module in ("utils", fn.module) and t.cls is None \
                    and t.parent is None:
                k, why = combinator_class(db, t, depth + 1)
                if k != "unknown":
                    return k, f"{t.name}: {why}"
    if any(isinstance(c.func, ast.Name) and c.func.id == "next" for c in src_calls) and not \
            any(isinstance(n, (ast.For, ast.While)) for n in own_nodes(fn.node)):
        return "lockstep", "a lone next(): at most one element of each stream"
    return "unknown", "no recognised combination idiom"


def rule_product(db: ProgramDB) -> List[Instance]:
    out = []
    qod = db.cls("QueryObjectDescriptor")
    m = qod.methods.get("_evaluate_")
    if m is None:
        raise AnalysisError("QueryObjectDescriptor._evaluate_ not found")
    # how are the streams of the selected expressions combined?
    sel_param = [p for p in m.params if "selected" in p]
    if not sel_param:
        raise AnalysisError("QueryObjectDescriptor._evaluate_: selected-variables parameter not found")
    sp = sel_param[0]
    cands: List[Tuple[ast.Call, FuncInfo]] = []
    for c in own_calls(m):
        t = None
        if isinstance(c.func, ast.Attribute) and isinstance(c.func.value, ast.Name) and c.func.value.id == "self":
            t = qod.lookup(c.func.attr)
        else:
            r = resolve_call_target(db, m, c)
            t = r if isinstance(r, FuncInfo) else None
        if t is None or t.qualname == m.qualname:
            continue
        argn = set()
        for a in list(c.args) + [k.value for k in c.keywords]:
            argn |= names_in(a)
        derived = derived_closure(m, {sp})
        if argn & derived and (t.is_generator or t.module == "utils"):
            if t.name.startswith("_warn"):
                continue
            cands.append((c, t))
    if not cands:
        raise AnalysisError("QueryObjectDescriptor._evaluate_: no combinator over the selected expressions found")
    for c, t in cands:
        k, why = combinator_class(db, t)
        key = f"QueryObjectDescriptor._evaluate_[{t.name}]"
        if k == "product":
            out.append(inst("PRODUCT", HOLDS, m, key, f"selected expressions are completed by `{t.name}`: {why}", line=c.lineno))
        elif k == "lockstep":
            out.append(inst("PRODUCT", VIOLATION, m, key,
                            f"selected expressions are completed by `{t.name}`: {why}; unrelated selected variables must be "
                            f"combined freely (all combinations)", line=c.lineno))
        else:
            out.append(inst("PRODUCT", UNDECIDED, m, key, f"`{t.name}`: {why}", line=c.lineno))
    # the shared helper itself
    gc = db.fn("utils:generate_combinations", required=False)
    if gc is not None:
        k, why = combinator_class(db, gc)
        out.append(inst("PRODUCT", HOLDS if k == "product" else (VIOLATION if k == "lockstep" else UNDECIDED), gc,
                        "utils.generate_combinations", why))
    return out


# ---------------------------------------------------------------------------------- DEDUP-KEY
def _key_additions(fn: FuncInfo) -> Set[Tuple[str, str]]:
    """(child side, operand whose _unique_variables_ are added) pairs of a _required_variables_from_child_ body."""
    adds: Set[Tuple[str, str]] = set()
    for n in own_nodes(fn.node):
        if isinstance(n, ast.If):
            t = unparse(n.test)
            for side in ("left", "right"):
                if f"child is self.{side}" in t or f"self.{side} is child" in t:
                    for c in ast.walk(ast.Module(body=n.body, type_ignores=[])):
                        if isinstance(c, ast.Call) and call_attr(c) in ("update", "add", "union"):
                            for a in c.args:
                                for x in ast.walk(a):
                                    if isinstance(x, ast.Attribute) and x.attr == "_unique_variables_" and \
                                            isinstance(x.value, ast.Attribute) and isinstance(x.value.value, ast.Name) \
                                            and x.value.value.id == "self" and x.value.attr in ("left", "right"):
                                        adds.add((side, x.value.attr))
    return adds


def rule_dedup_key(db: ProgramDB) -> List[Instance]:
    """Duplicate suppression keys a child's rows on the variables its ancestors require.  A binary operator evaluates its
    right operand under each row of the left one, so the rows it requires from its LEFT child must be keyed by the RIGHT
    operand's variables too: two left rows that agree on what the ancestors need but differ on a variable the right side
    constrains are not duplicates."""
    out = []
    bo = db.cls("BinaryOperator")
    impls = []
    for c in bo.all_subclasses():
        m = c.methods.get("_required_variables_from_child_")
        if m is not None:
            impls.append(m)
    if not impls:
        raise AnalysisError("no _required_variables_from_child_ on BinaryOperator subclasses")
    for m in sorted(impls, key=lambda f: f.qualname):
        adds = _key_additions(m)
        calls_super = any(isinstance(n, ast.Call) and call_attr(n) == "_required_variables_from_child_" and
                          isinstance(n.func.value, ast.Call) and isinstance(n.func.value.func, ast.Name)
                          and n.func.value.func.id == "super" for n in own_nodes(m.node))
        ok = ("left", "right") in adds or calls_super
        # keying a child's rows ALSO by that child's own variables only makes the key finer (fewer rows are taken for
        # duplicates); ForAll does that for its condition on purpose.  It is never a reason to report.
        bad_extra = False
        out.append(inst("DEDUP-KEY", HOLDS if ok and not bad_extra else VIOLATION, m, f"{m.short}[left child keyed by right operand]",
                        f"key additions {sorted(adds)}{' + inherited' if calls_super else ''}: the left child's rows are keyed by the "
                        f"right operand's variables" if ok and not bad_extra else
                        f"key additions {sorted(adds)}: the rows required from the left child are not keyed by the right "
                        f"operand's variables, so a left row that differs only on a variable the right operand constrains is "
                        f"suppressed as a duplicate and its join partners are lost"))
    return out


def rule_dedup_parent(db: ProgramDB) -> List[Instance]:
    """A node's duplicate-suppression key for a child always contains what the node's own parent requires from it: on
    every path through every implementation of _required_variables_from_child_ on which the node has a parent, the
    parent's requirements are merged in (directly or through super())."""
    from ..abseval import AbsEval, State, TOP
    from ..cfg import CFG
    from .modes import _node_calls
    out = []
    se = db.cls("SymbolicExpression")
    impls = []
    for c in se.all_subclasses():
        m = c.methods.get("_required_variables_from_child_")
        if m is not None:
            impls.append(m)
    for m in sorted(impls, key=lambda f: f.qualname):
        cfg = CFG(m)

        def attr_hook(e, st, ev):
            if isinstance(e, ast.Attribute) and isinstance(e.value, ast.Name) and e.value.id == "self":
                if e.attr == "_parent_":
                    return ("obj", "truthy")
                if e.attr in ("left", "right", "_child_"):
                    return ("obj", "#" + e.attr)
            return None
        ev = AbsEval(db, m, cfg, attr_hook=attr_hook)
        child_param = m.positional_params[1] if len(m.positional_params) > 1 else None
        is_binary = m.cls.is_subclass_of("BinaryOperator")
        child_tokens = [("obj", "#left"), ("obj", "#right")] if is_binary else [("obj", "#_child_")]

        def merges_parent(n) -> bool:
            for c in _node_calls(n):
                if call_attr(c) == "_required_variables_from_child_":
                    r = c.func.value
                    if isinstance(r, ast.Attribute) and r.attr == "_parent_":
                        return True
                    if isinstance(r, ast.Call) and isinstance(r.func, ast.Name) and r.func.id == "super":
                        return True
            return False
        if not any(merges_parent(n) for n in cfg.nodes):
            out.append(inst("DEDUP-PARENT", VIOLATION, m, f"{m.short}[parent requirements merged]",
                            "the parent's requirements are never merged into the key"))
            continue
        p = None
        for tok in child_tokens:
            init = State({child_param: tok}) if child_param else State({})
            p = ev.explore([(cfg.entry, init)], lambda n: n.kind in ("return", "exit"), blocked=merges_parent, kinds=("n",))
            if p is not None:
                break
        ok = p is None
        out.append(inst("DEDUP-PARENT", HOLDS if ok else VIOLATION, m, f"{m.short}[parent requirements merged]",
                        "on every path the parent's requirements are merged into the key" if ok else
                        "a path returns the key without what the parent requires from this node: rows that differ only in a "
                        "variable an ancestor (e.g. the rule head / the selected variables) needs are suppressed as duplicates: "
                        + " ".join(cfg.describe_path(p)[-3:])))
    return out


def rule_product_correlated(db: ProgramDB) -> List[Instance]:
    """Evaluation streams whose rows end up in one row may share variables that are not bound yet.  Creating them all under
    the same binding and multiplying them (a product combinator) enumerates such a variable once per stream, mixing values
    of different assignments; they must be evaluated one under the binding of the other (nested / recursive binding)."""
    out = []
    model = site_model(db)
    n = 0
    for fn in sorted(db.all_functions(), key=lambda f: f.qualname):
        # collections of streams built in one expression: {k: v._evaluate…(B) for …}, [x._evaluate…(B) for …]
        for node in own_nodes(fn.node):
            if not isinstance(node, (ast.DictComp, ast.ListComp, ast.GeneratorExp, ast.SetComp)):
                continue
            elt = node.value if isinstance(node, ast.DictComp) else node.elt
            calls = [c for c in ast.walk(elt) if isinstance(c, ast.Call) and is_eval_name(call_attr(c))]
            if not calls:
                continue
            # is the collection handed to a product-class combinator?
            holder = None
            p = db.parent(node)
            if isinstance(p, ast.Assign) and len(p.targets) == 1 and isinstance(p.targets[0], ast.Name):
                holder = p.targets[0].id
            users = []
            for c in own_calls(fn):
                argn = set()
                for a in list(c.args) + [k.value for k in c.keywords]:
                    argn |= names_in(a)
                    if a is node:
                        argn.add("<inline>")
                if (holder and holder in argn) or "<inline>" in argn:
                    users.append(c)
            for u in users:
                t = resolve_call_target(db, fn, u)
                if not isinstance(t, FuncInfo):
                    if isinstance(u.func, ast.Attribute) and isinstance(u.func.value, ast.Name) and u.func.value.id == "self" and fn.cls:
                        t = fn.cls.lookup(u.func.attr)
                if not isinstance(t, FuncInfo):
                    continue
                kind, why = combinator_class(db, t)
                if kind == "unknown" and t.cls is not None:
                    # a method that forwards the collection to a combinator
                    for c2 in own_calls(t):
                        t2 = resolve_call_target(db, t, c2)
                        if isinstance(t2, FuncInfo):
                            k2, w2 = combinator_class(db, t2)
                            if k2 != "unknown":
                                kind, why = k2, f"{t2.name}: {w2}"
                if kind != "product":
                    continue
                n += 1
                out.append(inst("PRODUCT-CORRELATED", VIOLATION, fn, f"{fn.short}[{unparse(node)[:50]}]",
                                f"`{unparse(node)[:70]}` starts one evaluation stream per expression, all under the same binding, "
                                f"and `{t.name}` multiplies them ({why}): expressions that share a variable the binding leaves "
                                f"unbound (q.name and q.age; a parent and its flattened attribute) enumerate it independently, so "
                                f"one row mixes values of different assignments", line=node.lineno))
    # the accepted idiom must be present where several expressions are bound into one row
    seq = []
    for fn in db.all_functions():
        if fn.is_generator and fn.cls is not None and combinator_class(db, fn)[0] == "product" and any(
                is_eval_name(call_attr(c)) for c in own_calls(fn)):
            seq.append(fn)
    for fn in sorted(seq, key=lambda f: f.qualname):
        out.append(inst("PRODUCT-CORRELATED", HOLDS, fn, fn.short,
                        "binds several expressions into one row by recursive nested evaluation, each under the binding "
                        "accumulated so far"))
    return out


# ---------------------------------------------------------------------------------- DEDUP-UNKNOWN
def rule_dedup_unknown(db: ProgramDB) -> List[Instance]:
    """`when_true=None` means that the truth of the child's row is not known to the ancestor asking (an else-if passes it up
    for its false rows, which may become true through its other side).  An implementation that admits None must then
    require at least what it requires for a row known to be true or known to be false: the key for 'unknown' has to tell
    apart every two rows that either of the known cases tells apart."""
    from ..abseval import AbsEval, State, const, NONE, TRUE, FALSE
    from ..cfg import CFG
    out = []
    se = db.cls("SymbolicExpression")
    n = 0
    for c in sorted(se.all_subclasses(), key=lambda k: k.qualname):
        m = c.methods.get("_required_variables_from_child_")
        if m is None:
            continue
        wt = "when_true"
        if wt not in m.params:
            continue
        ann = next((unparse(a.annotation) for a in m.node.args.args + m.node.args.kwonlyargs if a.arg == wt and a.annotation is not None), "")
        dflt = m.param_default(wt)
        admits_none = "Optional" in ann or "None" in ann or (isinstance(dflt, ast.Constant) and dflt.value is None)
        if not admits_none:
            continue
        cfg = CFG(m)

        def attr_hook(e, st, ev):
            if isinstance(e, ast.Attribute) and isinstance(e.value, ast.Name) and e.value.id == "self":
                if e.attr == "_parent_":
                    return ("obj", "truthy")
                if e.attr in ("left", "right", "_child_"):
                    return ("obj", "#" + e.attr)
            return None
        child_param = m.positional_params[1] if len(m.positional_params) > 1 else None
        is_binary = c.is_subclass_of("BinaryOperator")
        sides = ["left", "right"] if is_binary else ["_child_"]
        # key contributions: calls X.update(<arg>) / X.add(<arg>) on a local accumulator, identified by the text of <arg>
        def contributions(nd) -> List[str]:
            res = []
            if nd.ast is None or nd.kind != "stmt":
                return res
            for x in ast.walk(nd.ast):
                if isinstance(x, ast.Call) and call_attr(x) in ("update", "add") and x.args and isinstance(x.func.value, ast.Name):
                    res.append(unparse(x.args[0]))
            return res
        for side in sides:
            reach: Dict[str, Set[str]] = {}
            for label, tok in (("True", TRUE), ("False", FALSE), ("None", NONE)):
                ev = AbsEval(db, m, cfg, attr_hook=attr_hook)
                init = {wt: tok}
                if child_param:
                    init[child_param] = ("obj", "#" + side)
                IN = ev.run(State(init), kinds=("n",))
                got: Set[str] = set()
                for nid, sts in IN.items():
                    if sts:
                        got.update(contributions(cfg.nodes[nid]))
                reach[label] = got
            n += 1
            missing = sorted((reach["True"] | reach["False"]) - reach["None"])
            # contributions inside a loop `for conc in …: update(conc._unique_variables_)` appear by text as well
            ok = not missing
            out.append(inst("DEDUP-UNKNOWN", HOLDS if ok else VIOLATION, m, f"{m.short}[child is self.{side}: unknown truth]",
                            f"for a row of unknown truth the key contains everything required for a true or a false row "
                            f"({len(reach['None'])} contribution(s))" if ok else
                            f"for a row of self.{side} whose truth is unknown (when_true=None) the key lacks `{missing[0]}`, which is "
                            f"required when the row is known to be {'false' if missing[0] in reach['False'] else 'true'}: in a chain of "
                            f"alternatives the failed rows of the base are suppressed as duplicates before a later alternative "
                            f"that tests those variables sees them"))
    if n == 0:
        raise AnalysisError("no _required_variables_from_child_ implementation admits when_true=None")
    return out


# ---------------------------------------------------------------------------------- DEDUP-CONCLUSIONS
def rule_dedup_conclusions(db: ProgramDB) -> List[Instance]:
    """An else-if tries its right side for the rows on which its left side failed; in a rule tree that right side is an
    alternative branch with conclusions of its own.  Wherever an implementation of the duplicate-suppression key adds the
    right operand's variables for a failed (or not yet decided) row of the left side, it also adds the variables the right
    operand CONCLUDES on: two failed rows that differ only there lead to two different conclusions."""
    from ..abseval import AbsEval, State, NONE, TRUE, FALSE
    from ..cfg import CFG
    out = []
    se = db.cls("SymbolicExpression")
    n = 0
    for c in sorted(se.all_subclasses(), key=lambda k: k.qualname):
        m = c.methods.get("_required_variables_from_child_")
        if m is None or "when_true" not in m.params or not c.is_subclass_of("BinaryOperator"):
            continue
        cfg = CFG(m)

        def attr_hook(e, st, ev):
            if isinstance(e, ast.Attribute) and isinstance(e.value, ast.Name) and e.value.id == "self":
                if e.attr == "_parent_":
                    return ("obj", "truthy")
                if e.attr in ("left", "right"):
                    return ("obj", "#" + e.attr)
            return None
        child_param = m.positional_params[1]

        def adds_right_vars(nd) -> bool:
            return nd.ast is not None and nd.kind == "stmt" and any(
                isinstance(x, ast.Call) and call_attr(x) in ("update", "add") and x.args and unparse(x.args[0]) == "self.right._unique_variables_"
                for x in ast.walk(nd.ast))

        def _right_conclusion_sources(nd) -> Set[str]:
            """which conclusion collections of the right operand a loop that extends the key ranges over"""
            if nd.kind != "for" or not any(isinstance(x, ast.Call) and call_attr(x) in ("update", "add") for st in nd.stmt.body for x in ast.walk(st)):
                return set()
            return {x.attr for x in ast.walk(nd.stmt.iter) if isinstance(x, ast.Attribute) and unparse(x.value) == "self.right"
                    and x.attr in ("_conclusion_", "_conclusions_of_all_descendants_", "_descendants_")}

        def loops_right_conclusions(nd) -> bool:
            return "_conclusion_" in _right_conclusion_sources(nd)

        def loops_conclusions_below_right(nd) -> bool:
            return bool(_right_conclusion_sources(nd) & {"_conclusions_of_all_descendants_", "_descendants_"})
        for label, tok in (("False", FALSE), ("None", NONE)):
            ev = AbsEval(db, m, cfg, attr_hook=attr_hook)
            IN = ev.run(State({"when_true": tok, child_param: ("obj", "#left")}), kinds=("n",))
            reach = [cfg.nodes[i] for i, sts in IN.items() if sts]
            if not any(adds_right_vars(nd) for nd in reach):
                continue          # this implementation does not try its right side for such a row
            # only the else-if family: the right side is tried because the left side FAILED (not added for a true row)
            ev_t = AbsEval(db, m, cfg, attr_hook=attr_hook)
            IN_t = ev_t.run(State({"when_true": TRUE, child_param: ("obj", "#left")}), kinds=("n",))
            if any(adds_right_vars(cfg.nodes[i]) for i, sts in IN_t.items() if sts):
                continue
            n += 1
            ok = any(loops_right_conclusions(nd) for nd in reach)
            out.append(inst("DEDUP-CONCLUSIONS", HOLDS if ok else VIOLATION, m, f"{m.short}[failed rows of self.left, when_true={label}]",
                            "keyed by what the right side tests and by what it concludes on" if ok else
                            "the failed rows of the left side are keyed by the variables the right side tests but not by those its "
                            "conclusions use: an alternative that concludes on a variable its condition does not mention fires for the "
                            "first failed assignment only (the others are suppressed as duplicates before it sees them)"))
            ok2 = any(loops_conclusions_below_right(nd) for nd in reach)
            out.append(inst("DEDUP-CONCLUSIONS", HOLDS if ok2 else VIOLATION, m, f"{m.short}[failed rows of self.left, when_true={label}: conclusions below a selector]",
                            "the conclusions attached below the right side (a refined alternative is a selector: its own conclusion set is filled only "
                            "while it is evaluated) are part of the key" if ok2 else
                            "only the right operand's OWN conclusion set is read for the key; for a refined alternative that operand is a selector whose "
                            "set is filled only while it is evaluated, so when the key is computed it is empty: failed rows that differ only in a "
                            "variable the alternative concludes on are suppressed as duplicates (base x.a == y.k refined, alternative(y.k >= 0) refined: "
                            "the alternative's conclusions for the items the base never matches are lost)"))
    if n == 0:
        raise AnalysisError("no else-if style implementation of _required_variables_from_child_ found")
    # 'below' means at any depth: the collection the key reads ranges over all descendants, not over the children only
    prop = se.lookup("_conclusions_of_all_descendants_")
    if prop is not None:
        srcs = {x.attr for x in own_nodes(prop.node) if isinstance(x, ast.Attribute) and isinstance(x.value, ast.Name) and x.value.id == "self"
                and x.attr in ("_descendants_", "_children_", "_all_nodes_", "_conclusions_of_all_descendants_")}
        recursive = any(isinstance(x, ast.Attribute) and x.attr == "_conclusions_of_all_descendants_" and not (isinstance(x.value, ast.Name) and x.value.id == "self")
                        for x in own_nodes(prop.node))
        ok3 = "_descendants_" in srcs or "_all_nodes_" in srcs or recursive
        out.append(inst("DEDUP-CONCLUSIONS", HOLDS if ok3 else VIOLATION, prop, f"{prop.short}[at any depth]",
                        "ranges over all descendants" if ok3 else
                        f"`{prop.short}` ranges over {sorted(srcs) or 'nothing recognisable'}, i.e. one level: a conclusion two refinements deep below an alternative is missing "
                        f"from the key, and failed rows that differ only in a variable that conclusion mentions are collapsed into one (the most specific refinement "
                        f"fires for one of them only)", line=prop.lineno))
    return out


# ---------------------------------------------------------------------------------- DEDUP-TRUTH-UP
def rule_dedup_truth_up(db: ProgramDB) -> List[Instance]:
    """A node asks its parent what the parent requires, telling it its OWN truth for the row.  For a conjunction (and every
    other operator served by the base implementation) a true operand does not make the node true - the other operand may
    fail - so for a child row known to be true the node's truth is unknown (None); for a false child row it is false.
    Passing the child's truth up as the node's own makes an enclosing else-if conclude that its other side will not be tried
    and leave that side's variables out of the key."""
    from ..abseval import AbsEval, State, NONE, TRUE, FALSE, fmt
    from ..cfg import CFG
    out = []
    bo = db.cls("BinaryOperator")
    m = bo.methods.get("_required_variables_from_child_")
    if m is None:
        raise AnalysisError("BinaryOperator._required_variables_from_child_ not found")
    cfg = CFG(m)
    ups = []
    for nd in cfg.nodes:
        if nd.ast is None or nd.kind != "stmt":
            continue
        for c in ast.walk(nd.ast):
            if isinstance(c, ast.Call) and call_attr(c) == "_required_variables_from_child_" and isinstance(c.func.value, ast.Attribute) \
                    and c.func.value.attr == "_parent_":
                ups.append((nd, c))
    if not ups:
        raise AnalysisError("BinaryOperator._required_variables_from_child_ does not ask its parent")

    def attr_hook(e, st, ev):
        if isinstance(e, ast.Attribute) and isinstance(e.value, ast.Name) and e.value.id == "self":
            if e.attr == "_parent_":
                return ("obj", "truthy")
            if e.attr in ("left", "right"):
                return ("obj", "#" + e.attr)
        return None
    child_param = m.positional_params[1]
    for nd, c in ups:
        arg = c.args[1] if len(c.args) > 1 else next((k.value for k in c.keywords if k.arg == "when_true"), None)
        if arg is None:
            out.append(inst("DEDUP-TRUTH-UP", VIOLATION, m, "BinaryOperator._required_variables_from_child_[own truth for a true child]",
                            "the parent is asked without the node's truth (defaults to True)", line=c.lineno))
            continue
        got = {}
        for label, tok in (("True", TRUE), ("False", FALSE), ("None", NONE)):
            ev = AbsEval(db, m, cfg, attr_hook=attr_hook)
            IN = ev.run(State({"when_true": tok, child_param: ("obj", "#left")}), kinds=("n",))
            vals = set()
            for st in IN.get(nd.id, set()):
                vals |= set(ev.eval(arg, st))
            got[label] = vals
        ok = got["True"] <= {NONE} and got["False"] <= {FALSE, NONE} and got["None"] <= {NONE} and got["True"]
        out.append(inst("DEDUP-TRUTH-UP", HOLDS if ok else VIOLATION, m, "BinaryOperator._required_variables_from_child_[own truth for a true child]",
                        f"truth passed to the parent: child true -> {sorted(fmt(v) for v in got['True'])}, child false -> {sorted(fmt(v) for v in got['False'])}" +
                        ("" if ok else ": a true operand is reported as a true conjunction; an enclosing or_ then leaves the variables of its other "
                                       "side out of the key although the conjunction can still fail, and the row the other side needs is suppressed "
                                       "as a duplicate (the result depends on the order of a domain)"), line=c.lineno))
    return out


# ---------------------------------------------------------------------------------- KEY-FILTER-KEEPS
def rule_key_filter_keeps(db: ProgramDB) -> List[Instance]:
    """Several places compute 'the variables that identify a row' by filtering `_unique_variables_` (cache keys, the
    variables an or_ compares, what a conclusion was drawn for, the for_all intersection key).  Such a filter may drop literal
    pseudo-variables (and, for for_all, predicate results); it must keep plain variables AND one-to-many mappings (a flattened
    expression takes several values under one binding of its variables, so it identifies a row like a variable does)."""
    from ..boolexpr import eval_bool
    out = []
    n = 0
    for fn in db.all_functions():
        if fn.module not in ("symbolic", "conclusion_selector"):
            continue
        defs = None

        def over_unique_variables(e: ast.AST, depth: int = 0) -> bool:
            """the expression is `_unique_variables_` of something, or a local computed from it (a union of two operands')"""
            nonlocal defs
            if "_unique_variables_" in unparse(e):
                return True
            if depth > 3:
                return False
            if defs is None:
                defs = local_defs(fn)
            return any(isinstance(d, ast.AST) and over_unique_variables(d, depth + 1)
                       for nm in ast.walk(e) if isinstance(nm, ast.Name) for d in defs.get(nm.id, []))
        for x in own_nodes(fn.node):
            lam = None
            if isinstance(x, ast.Call) and call_attr(x) == "filter" and x.args and isinstance(x.args[0], ast.Lambda) \
                    and over_unique_variables(x.func.value):
                lam = (x.args[0].args.args[0].arg, [x.args[0].body], x)
            elif isinstance(x, (ast.ListComp, ast.GeneratorExp, ast.SetComp)) and x.generators and over_unique_variables(x.generators[0].iter) \
                    and not (isinstance(x.generators[0].iter, ast.Call) and call_attr(x.generators[0].iter) == "filter") \
                    and isinstance(x.generators[0].target, ast.Name) and x.generators[0].ifs:
                lam = (x.generators[0].target.id, list(x.generators[0].ifs), x)
            if lam is None:
                continue
            var, tests, node = lam

            def atom(e, var=var):
                if isinstance(e, ast.Call) and dotted(e.func) == "isinstance" and len(e.args) == 2:
                    cls_txt = unparse(e.args[1])
                    on_payload = unparse(e.args[0]) == f"{var}.value"
                    if not on_payload:
                        return "WRAPPER"          # tests the HashedValue wrapper itself: never an expression class
                    if cls_txt.endswith("Literal"):
                        return "LIT"
                    if cls_txt.endswith("Variable"):
                        return "VAR"
                    if cls_txt.endswith("Flatten") or cls_txt.endswith("DomainMapping"):
                        return "MAP"
                    return "OTHERCLS:" + cls_txt
                if isinstance(e, (ast.Call, ast.Attribute)) and "_predicate_type_" in unparse(e):
                    return "PRED"
                return None
            kinds = {"plain variable": {"LIT": False, "VAR": True, "MAP": False, "PRED": False, "WRAPPER": False},
                     "flattened expression": {"LIT": False, "VAR": False, "MAP": True, "PRED": False, "WRAPPER": False}}
            n += 1
            for kind, env in kinds.items():
                try:
                    kept = all(bool(eval_bool(t, atom, env)) for t in tests)
                except (AnalysisError, KeyError) as e:
                    out.append(inst("KEY-FILTER-KEEPS", UNDECIDED, fn, f"{fn.short}[{unparse(node)[:40]}: {kind}]", f"filter not decidable: {e}", line=node.lineno))
                    continue
                out.append(inst("KEY-FILTER-KEEPS", HOLDS if kept else VIOLATION, fn, f"{fn.short}[{unparse(node)[:40]}: {kind}]",
                                f"a {kind} stays part of the key" if kept else
                                f"`{unparse(node)[:80]}` drops a {kind} from the variables that identify a row: two rows that differ only there "
                                f"(two elements of one flattened collection) are one key - the second gets no conclusion / is served the first "
                                f"one's cached row / is suppressed as a duplicate", line=node.lineno))
    if n == 0:
        raise AnalysisError("no filter over _unique_variables_ found")
    return out


# ---------------------------------------------------------------------------------- DEDUP-UNDER-ROW-TRUTH
def rule_dedup_under_row_truth(db: ProgramDB) -> List[Instance]:
    """The duplicate test reads the node's truth flag: true and false rows are remembered apart, and the parent is asked
    what it requires for a row of THAT truth.  A row is therefore tested under the truth it is handed on with: between the
    test and the yield the flag is not assigned again (the assignment belongs before the test)."""
    from ..cfg import CFG
    out = []
    se = db.cls("SymbolicExpression")
    n = 0
    for c in sorted([se] + se.all_subclasses(), key=lambda k: k.qualname):
        for m in c.methods.values():
            if m.cls is not c or not m.is_generator:
                continue
            if not any(call_attr(x) == "_is_duplicate_output_" for x in own_calls(m)):
                continue
            cfg = CFG(m)

            def is_test(nd):
                return nd.ast is not None and nd.kind in ("test", "stmt") and any(isinstance(x, ast.Call) and call_attr(x) == "_is_duplicate_output_"
                                                                                   for x in ast.walk(nd.ast if nd.kind == "stmt" else getattr(nd.stmt, "test", nd.ast)))

            def sets_flag(nd):
                a = nd.ast
                return nd.kind == "stmt" and isinstance(a, (ast.Assign, ast.AugAssign)) and any(
                    isinstance(t, ast.Attribute) and t.attr == "_is_false_" and isinstance(t.value, ast.Name) and t.value.id == "self"
                    for t in (a.targets if isinstance(a, ast.Assign) else [a.target]))
            for d in [nd for nd in cfg.nodes if is_test(nd)]:
                n += 1
                bad = None
                stop = lambda nd: nd.kind == "for" or is_test(nd)
                for a in [nd for nd in cfg.nodes if sets_flag(nd)]:
                    p1 = cfg.find_path(d.id, lambda nd, a=a: nd.id == a.id, kinds=("n",), blocked=lambda nd: stop(nd) or nd.has_yield)
                    if p1 is None:
                        continue
                    p2 = cfg.find_path(a.id, lambda nd: nd.has_yield, kinds=("n",), blocked=stop)
                    if p2 is not None:
                        bad = (a, p1 + p2)
                        break
                out.append(inst("DEDUP-UNDER-ROW-TRUTH", VIOLATION if bad else HOLDS, m, f"{m.short}[{d.src()[:60]}]",
                                f"`{bad[0].src()}` (line {bad[0].lineno}) assigns the truth of the row after the duplicate test and before the row is handed on: "
                                f"the test ran under the truth the previous row left behind, so a false row is looked up among (and remembered with) the "
                                f"true ones - the parent is asked what it requires for a true row, and a later true row with the same values is suppressed"
                                if bad else "the row is handed on with the truth it was tested under", line=d.lineno))
    if n < 4:
        raise AnalysisError(f"only {n} duplicate test(s) in evaluation generators found")
    return out


# ---------------------------------------------------------------------------------- EVAL-PARENT-SET
EVAL_PARENT_SETTERS = {
    # function -> why its operands need to know who is evaluating them (confirmed by reading; the other evaluators - ExceptIf,
    # Concatenate, the kwargs expression - leave the graph parent in force)
    "The._evaluate_": "the descriptor asks its parent (the quantifier) what to keep when it suppresses duplicates",
    "An._evaluate__": "the descriptor asks its parent (the quantifier) what to keep when it suppresses duplicates",
    "QueryObjectDescriptor._evaluate_": "the root condition's duplicate key starts from the descriptor that evaluates it, not from the description built last on it",
    "DomainMapping._evaluate__": "a mapping's child is shared by every expression built on it",
    "Comparator._evaluate__": "operands are shared between comparisons",
    "AND._evaluate__": "an operand can be an operand of another operator as well",
    "ElseIf._evaluate__": "an operand can be an operand of another operator as well",
    "Variable._bind_child_vars_": "an argument (a sub-query given to a predicate, a nested term) can be used by other queries as well",
    "ForAll._evaluate__": "the universal expression and the condition can be used by other queries as well (a condition object shared with a plain query)",
}


def rule_eval_parent_set(db: ProgramDB) -> List[Instance]:
    """A node can have several parents in the graph (a condition object used by two queries, an operand shared by two
    operators); `_parent_` then names the one that was linked first.  What a node keeps when it suppresses duplicates is
    asked of its parent, so the operators in the table tell the operand which of its parents is evaluating it
    (`operand._eval_parent_ = self`) before they evaluate it - on every path to the evaluation."""
    from ..cfg import CFG
    out = []
    model = site_model(db)
    for short, why in sorted(EVAL_PARENT_SETTERS.items()):
        cname, mname = short.split(".")
        m = db.method(cname, mname, inherited=False)
        sites = [s for s in model.sites if s.fn is m and s.origins and all(o.startswith("self.") and "_conclusion_" not in o and "selected_variables" not in o for o in s.origins)]
        if not sites:
            raise AnalysisError(f"{short}: no evaluation of an operand found")
        cfg = CFG(m)
        for s in sites:
            recv = unparse(s.receiver)
            node = next((nd for nd in cfg.nodes if nd.ast is not None and any(x is s.call for x in ast.walk(nd.ast if nd.kind != "for" else nd.stmt.iter))), None)
            if node is None:
                out.append(inst("EVAL-PARENT-SET", UNDECIDED, m, f"{short}[{recv}]", "evaluation site not located in the control-flow graph", line=s.line))
                continue

            from ..facts import alias_closure
            names_for_recv = {recv} | alias_closure(m, {recv})       # the operand may have been taken into a local first

            def sets(nd, recv=recv, names_for_recv=names_for_recv):
                a = nd.ast
                return nd.kind == "stmt" and isinstance(a, ast.Assign) and any(
                    isinstance(t, ast.Attribute) and t.attr == "_eval_parent_" and unparse(t.value) in names_for_recv for t in a.targets) and unparse(a.value) == "self"
            p = cfg.find_path(cfg.entry, lambda nd: nd.id == node.id, kinds=("n",), blocked=sets)
            ok = p is None
            out.append(inst("EVAL-PARENT-SET", HOLDS if ok else VIOLATION, m, f"{short}[{recv} told who evaluates it]",
                            f"`{recv}._eval_parent_ = self` precedes the evaluation on every path" if ok else
                            f"`{unparse(s.call)[:60]}` can be reached without `{recv}._eval_parent_ = self` ({why}): an operand with two parents in the graph asks the "
                            f"wrong one what to keep - one disjunctive condition object used as the root of two queries makes the query that selects more "
                            f"variables lose rows (12 pairs instead of 16)", line=s.line))
    return out


# ---------------------------------------------------------------------------------- DEDUP-PER-PARENT
def rule_dedup_per_parent(db: ProgramDB) -> List[Instance]:
    """What a node has already handed on is remembered per PARENT: a node used under two parents (one or_ object in two
    conjunctions) owes each of them its rows.  The store of seen rows is selected by the identity of the parent that is
    evaluating the node, not by the node's own."""
    out = []
    se = db.cls("SymbolicExpression")
    n = 0
    for c in sorted([se] + se.all_subclasses(), key=lambda k: k.qualname):
        m = c.methods.get("_is_duplicate_output_")
        if m is None or m.cls is not c:
            continue
        defs = local_defs(m)
        for x in own_nodes(m.node):
            key = None
            if isinstance(x, ast.Call) and call_attr(x) in ("setdefault", "get") and "by_parent" in unparse(x.func.value) and x.args:
                key = x.args[0]
            elif isinstance(x, ast.Subscript) and "by_parent" in unparse(x.value):
                key = x.slice
            if key is None:
                continue
            n += 1
            srcs = [key] + [d for y in ast.walk(key) if isinstance(y, ast.Name) for d in defs.get(y.id, []) if isinstance(d, ast.AST)]
            from_parent = any(isinstance(y, ast.Attribute) and y.attr in ("_parent_", "_eval_parent_") for s_ in srcs for y in ast.walk(s_))
            out.append(inst("DEDUP-PER-PARENT", HOLDS if from_parent else VIOLATION, m, f"{m.short}[{unparse(x)[:50]}]",
                            "the store of seen rows is selected by the parent that evaluates the node" if from_parent else
                            f"`{unparse(key)}` selects the store of seen rows without regard to the parent: an or_ object used under two conjunctions hands its row "
                            f"to the first and suppresses it as a duplicate for the second - a qualifying object is lost", line=x.lineno))
    if n == 0:
        # a class-wide store (no per-parent dimension at all) is the same defect
        m = se.methods.get("_is_duplicate_output_")
        if m is None:
            raise AnalysisError("SymbolicExpression._is_duplicate_output_ not found")
        out.append(inst("DEDUP-PER-PARENT", VIOLATION, m, f"{m.short}[per-parent store]",
                        "the duplicate test keeps one store of seen rows per node, not one per parent"))
    return out


# ---------------------------------------------------------------------------------- DEDUP-TRACKERS-DISTINCT
def rule_dedup_trackers_distinct(db: ProgramDB) -> List[Instance]:
    """True rows and false rows of a node are remembered APART (the duplicate test picks the tracker by the truth of the row): the
    mapping {True: tracker, False: tracker} holds two objects.  Built with one tracker expression evaluated once - dict.fromkeys(keys,
    SeenSet()), a name used for both values - a false row marks the same values as seen among the true rows, and the complement of a
    condition (whose rows are the false rows of the original) loses the assignments the original condition has seen."""
    out = []
    n = 0
    ss = db.cls("SeenSet")

    def is_tracker_ctor(e) -> bool:
        return isinstance(e, ast.Call) and (dotted(e.func) or "").split(".")[-1] == ss.name
    for fn in sorted(db.all_functions(), key=lambda f: f.qualname):
        for e in own_nodes(fn.node):
            # {True: X, False: Y}
            if isinstance(e, ast.Dict) and len(e.keys) == 2 and all(isinstance(k, ast.Constant) and isinstance(k.value, bool) for k in e.keys):
                n += 1
                a, b = e.values
                ok = is_tracker_ctor(a) and is_tracker_ctor(b)
                shared = isinstance(a, ast.Name) and isinstance(b, ast.Name) and a.id == b.id
                if not ok and not shared and not (isinstance(a, ast.Name) or isinstance(b, ast.Name)):
                    continue           # a mapping by truth of something else
                out.append(inst("DEDUP-TRACKERS-DISTINCT", HOLDS if ok else VIOLATION, fn, f"{fn.short}[{unparse(e)[:50]}]",
                                "two trackers, one per truth" if ok else
                                f"`{unparse(e)}` uses one object for the true and the false rows: a false row marks its values as seen among the true rows", line=e.lineno))
            # {k: SeenSet() for k in (True, False)}: the value expression is evaluated per key
            if isinstance(e, ast.DictComp) and is_tracker_ctor(e.value) and len(e.generators) == 1 and isinstance(e.generators[0].iter, (ast.Tuple, ast.List, ast.Set)) \
                    and all(isinstance(k, ast.Constant) and isinstance(k.value, bool) for k in e.generators[0].iter.elts):
                n += 1
                out.append(inst("DEDUP-TRACKERS-DISTINCT", HOLDS, fn, f"{fn.short}[{unparse(e)[:50]}]", "one tracker per truth (the value is evaluated per key)", line=e.lineno))
            if isinstance(e, ast.Call) and (dotted(e.func) or "").endswith("fromkeys") and len(e.args) == 2 and is_tracker_ctor(e.args[1]):
                n += 1
                out.append(inst("DEDUP-TRACKERS-DISTINCT", VIOLATION, fn, f"{fn.short}[{unparse(e)[:50]}]",
                                f"`{unparse(e)}` evaluates `{unparse(e.args[1])}` once and stores the same tracker under every key: the true rows and the false rows "
                                f"of a node share one set of seen values - a value seen in a false row (the left side of an or_, every row below a negated "
                                f"conjunction) suppresses the true row with the same values later on, and the complement loses assignments", line=e.lineno))
    if n < 2:
        raise AnalysisError(f"only {n} by-truth tracker mappings found in functions (2 confirmed by reading)")
    return out


# ---------------------------------------------------------------------------------- EVAL-PARENT-RESET
def rule_eval_parent_reset(db: ProgramDB) -> List[Instance]:
    """'Who evaluates me' is told to an operand by assignment (`operand._eval_parent_ = self`).  Some evaluators put the previous value
    back in a `finally`, others leave their own identity behind; and some evaluators (for_all, a refinement, a concatenation) tell
    their operands nothing and rely on the graph parent, which is what an operand falls back to when nothing is left behind.  So what
    an evaluation leaves in `_eval_parent_` has to be wiped by the per-evaluation reset of every node: otherwise a condition shared by
    q1 = an(entity(p, cond)) and q2 = an(entity(p, for_all(u, cond))) answers q2 with q1's requirements once q1 was evaluated."""
    from .history import reset_chain_assigns
    out = []
    se = db.cls("SymbolicExpression")
    fld = "_eval_parent_"
    left_behind = []
    for fn in db.all_functions():
        if fn.cls is None or not fn.cls.is_subclass_of(se):
            continue
        sets = [a for a in own_nodes(fn.node) if isinstance(a, ast.Assign) and any(isinstance(t, ast.Attribute) and t.attr == fld
                and not (isinstance(t.value, ast.Name) and t.value.id == "self") for t in a.targets) and unparse(a.value) == "self"]
        if not sets:
            continue
        restores = [a for a in own_nodes(fn.node) if isinstance(a, ast.Assign) and any(isinstance(t, ast.Attribute) and t.attr == fld for t in a.targets)
                    and isinstance(a.value, ast.Name) and a.value.id != "self"]
        if len(restores) < len(sets):
            left_behind.append(fn)
    if not left_behind:
        out.append(inst("EVAL-PARENT-RESET", HOLDS, se, "SymbolicExpression._eval_parent_[wiped per evaluation]", "every evaluator restores what it found"))
        return out
    wiped = fld in reset_chain_assigns(db, se)
    out.append(inst("EVAL-PARENT-RESET", HOLDS if wiped else VIOLATION, se, "SymbolicExpression._eval_parent_[wiped per evaluation]",
                    f"{len(left_behind)} evaluator(s) leave their identity in the operand ({', '.join(f.short for f in left_behind[:4])} …); the per-evaluation reset wipes it" if wiped else
                    f"{', '.join(f.short for f in left_behind[:4])} leave `self` in the operand's `_eval_parent_` and the per-evaluation reset does not wipe it: an evaluator "
                    f"that tells its operands nothing (for_all, a refinement, a concatenation) then evaluates a shared condition under the requirements of the "
                    f"query that was evaluated BEFORE - q2 = an(entity(p, for_all(u, cond))) answers [] after q1 = an(entity(p, cond)) was evaluated"))
    return out


# ---------------------------------------------------------------------------------- DEDUP-TESTS-YIELDED-ROW
def rule_dedup_tests_yielded_row(db: ProgramDB) -> List[Instance]:
    """The duplicate test decides about ONE row: the row that is handed on when the test says 'not seen before' (and that is recorded
    as seen by the same call).  Path rule: from every call `self._is_duplicate_output_(X)`, the first row yielded on the path the
    generator takes when the answer is 'no duplicate' is X itself.  Testing the left operand's row and yielding the merged one makes
    every right-side row after the first a 'duplicate' of the same left row: or_(L, R) with R true for two values of a variable L does
    not bind yields one of the two assignments."""
    from ..cfg import CFG
    out = []
    se = db.cls("SymbolicExpression")
    n = 0
    for c in sorted([se] + se.all_subclasses(), key=lambda k: k.qualname):
        for m in c.methods.values():
            if m.cls is not c or not m.is_generator:
                continue
            calls = [x for x in own_calls(m) if call_attr(x) == "_is_duplicate_output_" and x.args]
            if not calls:
                continue
            cfg = CFG(m)
            for call in calls:
                arg = unparse(call.args[0])
                starts = [nd for nd in cfg.nodes if nd.ast is not None and nd.kind in ("test", "stmt") and any(y is call for y in ast.walk(nd.ast))]
                if not starts:
                    continue
                n += 1
                st = starts[0]
                # the 'not a duplicate' edge: the polarity under which the call is false
                t = st.ast
                neg = False
                x = call
                par = db.parent(x)
                while par is not None and par is not t and not isinstance(par, ast.stmt):
                    if isinstance(par, ast.UnaryOp) and isinstance(par.op, ast.Not):
                        neg = not neg
                    par = db.parent(par)
                if isinstance(t, ast.UnaryOp) and isinstance(t.op, ast.Not) and any(y is call for y in ast.walk(t)) and par is t:
                    neg = not neg
                want_label = "T" if neg else "F"

                def first_edge_ok(e, st=st, want_label=want_label):
                    if e.src == st.id and st.kind == "test":
                        return e.label == want_label
                    return True
                p = cfg.find_path(st.id, lambda nd: nd.has_yield, kinds=("n",), edge_ok=first_edge_ok)
                if p is None:
                    out.append(inst("DEDUP-TESTS-YIELDED-ROW", INFO, m, f"{m.short}[{unparse(call)[:46]}]", "no row is yielded after this test", line=call.lineno))
                    continue
                ynode = cfg.nodes[p[-1].dst]
                ys = [y for y in ast.walk(ynode.ast) if isinstance(y, (ast.Yield, ast.YieldFrom))]
                yv = unparse(ys[0].value) if ys and ys[0].value is not None else ""
                ok = yv == arg or isinstance(ys[0], ast.YieldFrom)
                out.append(inst("DEDUP-TESTS-YIELDED-ROW", HOLDS if ok else VIOLATION, m, f"{m.short}[{unparse(call)[:46]}]",
                                f"the row tested is the row handed on (`{arg}`)" if ok else
                                f"the duplicate test looks at `{arg}` and the row handed on when it says 'new' is `{yv}` (line {ynode.lineno}): the test records and "
                                f"compares another row than the one it decides about - for one row of the first operand every row of the second after the first "
                                f"counts as seen, so or_(L, R) with R true for two values of a variable L does not bind yields one assignment instead of two "
                                f"(the(...) returns a value instead of raising MultipleSolutionFound)", line=call.lineno))
    if n < 4:
        raise AnalysisError(f"only {n} duplicate tests in generators found")
    return out


# ---------------------------------------------------------------------------------- REQUIRED-ASK-AS-SELF
def rule_required_ask_as_self(db: ProgramDB) -> List[Instance]:
    """'What do you need of my rows?' travels up the tree: a node asks the node that evaluates it, and that node recognises WHICH of its
    operands is asking by identity (`child is self.left`, `child is self.right`).  So the question is asked in the asker's own
    name: every upward call in an implementation of _required_variables_from_child_ passes `self` - passing the node's own child
    makes the parent recognise neither operand, the sibling condition's variables are not required, and rows that differ only there
    are dropped as duplicates below (a sub-query that mentions a variable it does not select, next to a condition on that variable)."""
    out = []
    se = db.cls("SymbolicExpression")
    n = 0
    for c in sorted([se] + se.all_subclasses(), key=lambda k: k.qualname):
        m = c.methods.get("_required_variables_from_child_")
        if m is None or m.cls is not c:
            continue
        for call in own_calls(m):
            if call_attr(call) != "_required_variables_from_child_":
                continue
            recv = call.func.value
            if isinstance(recv, ast.Call) and dotted(recv.func) == "super":
                continue                    # the same node, the base class's part of the answer: the question is passed on as it came
            if not (isinstance(recv, ast.Attribute) and recv.attr in ("_parent_", "_eval_parent_") and isinstance(recv.value, ast.Name) and recv.value.id == "self"):
                continue
            n += 1
            amap = bind_args(fn_params(m), call)
            first = call.args[0] if call.args else amap.get(m.positional_params[1])
            ok = isinstance(first, ast.Name) and first.id == "self"
            out.append(inst("REQUIRED-ASK-AS-SELF", HOLDS if ok else VIOLATION, m, f"{m.short}[{unparse(call)[:50]}]",
                            "asks its parent in its own name" if ok else
                            f"`{unparse(call)[:70]}` asks the parent about `{unparse(first) if first is not None else '?'}`, which is not one of the parent's operands: the parent "
                            f"answers as for an unknown child, the variables of the sibling condition are missing from the key, and the duplicate suppression below drops "
                            f"rows that differ only in them", line=call.lineno))
    if n < 3:
        raise AnalysisError(f"only {n} upward questions found")
    return out

