"""
C04: history independence is "no residue".  The residue is state on shared expression nodes; where it is written and
where it is cleared is structure.

EVAL-STATE-RESET          container fields of expression nodes mutated by evaluation code are reset / re-initialised /
                          persistent by type (result caches, domain memo) / benign
COVERAGE-AFTER-COMPLETION coverage recorded while rows are still being produced requires a rollback on every exit of a
                          public entry on which evaluation did not run to completion
NO-DOMAIN-MUTATION        values tainted by the user's domain never reach a mutating call
"""
from __future__ import annotations

import ast
from typing import Dict, List, Optional, Set, Tuple

from ..db import ProgramDB, FuncInfo, ClassInfo, FieldInfo, AnalysisError, unparse, own_nodes, dotted
from ..cfg import CFG, Node
from ..callgraph import CallGraph
from ..facts import own_calls, call_attr, call_name, local_defs, resolve_call_target, bind_args, fn_params
from ..framework import inst, HOLDS, VIOLATION, UNDECIDED, INFO, Instance
from .entries import public_entries, entry_model, is_eval_method_name
from .modes import _node_calls, _is_exit

BUILTIN_MUTATORS = {"add", "append", "update", "clear", "pop", "remove", "insert", "extend", "setdefault", "discard",
                    "popitem", "sort", "reverse", "__setitem__", "__delitem__", "appendleft", "difference_update",
                    "intersection_update", "symmetric_difference_update"}
CONTAINER_TYPES = {"SeenSet", "IndexedCache", "HashedIterable", "CacheDict", "dict", "set", "list", "defaultdict",
                   "UserDict", "deque", "OrderedDict", "Counter"}


# ---------------------------------------------------------------------------------- container model
def _factory_types(e: Optional[ast.AST]) -> Set[str]:
    """Container type names a default_factory expression produces."""
    out: Set[str] = set()
    if e is None:
        return out
    if isinstance(e, ast.Name) and e.id in CONTAINER_TYPES:
        out.add(e.id)
    elif isinstance(e, ast.Lambda):
        b = e.body
        if isinstance(b, ast.Dict):
            out.add("dict")
            for v in b.values:
                if isinstance(v, ast.Call) and isinstance(v.func, ast.Name) and v.func.id in CONTAINER_TYPES:
                    out.add(v.func.id)
        elif isinstance(b, (ast.List, ast.ListComp)):
            out.add("list")
        elif isinstance(b, (ast.Set, ast.SetComp)):
            out.add("set")
        elif isinstance(b, ast.Call) and isinstance(b.func, ast.Name) and b.func.id in CONTAINER_TYPES:
            out.add(b.func.id)
            for a in b.args:
                if isinstance(a, ast.Lambda):
                    out |= _factory_types(a)
    return out


def self_mutating_methods(db: ProgramDB, cls: ClassInfo) -> Set[str]:
    """Names of methods/setters of a package container class that mutate the receiver (transitively through
    self-calls)."""
    direct: Set[str] = set()
    calls: Dict[str, Set[str]] = {}
    allm = dict(cls.methods)
    for c in cls.mro[1:]:
        for k, v in c.methods.items():
            allm.setdefault(k, v)
    setters = {}
    for c in cls.mro:
        for k, v in c.setters.items():
            setters.setdefault(k, v)
    for name, m in list(allm.items()) + [(k + "@setter", v) for k, v in setters.items()]:
        if name in ("__init__", "__post_init__"):
            continue
        calls[name] = set()
        for n in own_nodes(m.node):
            if isinstance(n, (ast.Assign, ast.AugAssign, ast.Delete)):
                targets = n.targets if isinstance(n, (ast.Assign, ast.Delete)) else [n.target]
                for t in targets:
                    base = t
                    while isinstance(base, ast.Subscript):
                        base = base.value
                    if isinstance(base, ast.Attribute) and isinstance(base.value, ast.Name) and base.value.id == "self":
                        if base.attr in setters:
                            calls[name].add(base.attr + "@setter")
                        else:
                            direct.add(name)
            elif isinstance(n, ast.Call) and isinstance(n.func, ast.Attribute):
                recv = n.func.value
                while isinstance(recv, ast.Subscript):
                    recv = recv.value
                if isinstance(recv, ast.Attribute) and isinstance(recv.value, ast.Name) and recv.value.id == "self":
                    # self.x.m(): mutation of a component
                    if n.func.attr in BUILTIN_MUTATORS:
                        direct.add(name)
                    else:
                        comp_types = _field_types(db, cls, recv.attr)
                        for ct in comp_types:
                            cc = db.cls(ct, required=False)
                            if cc is not None and cc is not cls and n.func.attr in self_mutating_methods(db, cc):
                                direct.add(name)
                elif isinstance(recv, ast.Name) and recv.id == "self":
                    calls[name].add(n.func.attr)
    changed = True
    while changed:
        changed = False
        for name, cs in calls.items():
            if name not in direct and cs & direct:
                direct.add(name)
                changed = True
    return {n.replace("@setter", "") for n in direct}


_SMM_CACHE: Dict[Tuple[str, str], Set[str]] = {}


def _mutators_of_type(db: ProgramDB, tname: str) -> Set[str]:
    k = (db.digest(), tname)
    if k not in _SMM_CACHE:
        c = db.cls(tname, required=False) if tname in db.class_by_name else None
        _SMM_CACHE[k] = (self_mutating_methods(db, c) | (BUILTIN_MUTATORS if c and c.external_bases else set())) \
            if c is not None else set(BUILTIN_MUTATORS)
    return _SMM_CACHE[k]


def _field_types(db: ProgramDB, cls: ClassInfo, attr: str) -> Set[str]:
    for c in cls.mro:
        for f in c.own_fields:
            if f.name == attr:
                ts = _factory_types(f.default) if f.default_is_factory else set()
                for k in db.annotation_classes(c.module, f.annotation):
                    ts.add(k.name)
                return ts
    return set()


class FieldUse:
    def __init__(self):
        self.mutations: List[Tuple[FuncInfo, ast.AST, str]] = []   # (function, node, how)
        self.reinit: List[Tuple[FuncInfo, ast.AST]] = []           # self.f = <fresh container>
        self.reads: List[Tuple[FuncInfo, ast.AST]] = []


def _is_fresh_container(e: ast.AST) -> bool:
    if isinstance(e, (ast.List, ast.Dict, ast.Set)):
        return all(_is_fresh_container(v) or isinstance(v, ast.Constant) for v in
                   (e.elts if not isinstance(e, ast.Dict) else e.values))
    if isinstance(e, ast.Call) and isinstance(e.func, ast.Name) and e.func.id in CONTAINER_TYPES and not e.args:
        return True
    return False


def field_uses(db: ProgramDB, decl: ClassInfo, fld: FieldInfo, types: Set[str]) -> FieldUse:
    """All uses of `<self>.fld` in methods of decl and its subclasses (receiver `self`), with one level of local
    aliasing (x = self.f[...]; x.add(...)) and one level of parameter passing into package methods that mutate the
    corresponding parameter."""
    use = FieldUse()
    muts: Set[str] = set()
    for t in types:
        muts |= _mutators_of_type(db, t)
    if not muts:
        muts = set(BUILTIN_MUTATORS)

    def is_field(e: ast.AST) -> bool:
        return isinstance(e, ast.Attribute) and e.attr == fld.name and isinstance(e.value, ast.Name) and e.value.id == "self"

    def rooted(e: ast.AST, aliases: Set[str]) -> bool:
        while isinstance(e, (ast.Subscript,)):
            e = e.value
        if isinstance(e, ast.Call) and isinstance(e.func, ast.Attribute) and e.func.attr in ("setdefault", "get"):
            return rooted(e.func.value, aliases)
        return is_field(e) or (isinstance(e, ast.Name) and e.id in aliases)

    for c in decl.all_subclasses():
        for m in list(c.methods.values()) + list(c.setters.values()):
            defs = local_defs(m)
            aliases: Set[str] = set()
            changed = True
            while changed:
                changed = False
                for name, vals in defs.items():
                    if name in aliases:
                        continue
                    for v in vals:
                        if isinstance(v, ast.AST) and rooted(v, aliases):
                            aliases.add(name)
                            changed = True
            for n in own_nodes(m.node):
                if isinstance(n, ast.Assign):
                    for t in n.targets:
                        if is_field(t):
                            if _is_fresh_container(n.value):
                                use.reinit.append((m, n))
                            else:
                                use.mutations.append((m, n, "rebinding"))
                        elif isinstance(t, ast.Subscript) and rooted(t.value, aliases):
                            use.mutations.append((m, n, "item assignment"))
                elif isinstance(n, ast.AugAssign) and (is_field(n.target) or
                                                       (isinstance(n.target, ast.Subscript) and rooted(n.target.value, aliases))):
                    use.mutations.append((m, n, "augmented assignment"))
                elif isinstance(n, ast.Delete):
                    for t in n.targets:
                        if isinstance(t, ast.Subscript) and rooted(t.value, aliases):
                            use.mutations.append((m, n, "item deletion"))
                elif isinstance(n, ast.Call):
                    f = n.func
                    if isinstance(f, ast.Attribute) and rooted(f.value, aliases) and f.attr in muts:
                        use.mutations.append((m, n, f".{f.attr}()"))
                    else:
                        # passed to a method that mutates the parameter
                        for idx, a in enumerate(n.args):
                            if rooted(a, aliases) and _callee_mutates_param(db, m, n, idx, None, muts):
                                use.mutations.append((m, n, f"passed to {call_name(n)}() which mutates it"))
                        for kw in n.keywords:
                            if kw.arg and rooted(kw.value, aliases) and _callee_mutates_param(db, m, n, None, kw.arg, muts):
                                use.mutations.append((m, n, f"passed to {call_name(n)}() which mutates it"))
                elif is_field(n) and isinstance(n.ctx, ast.Load):
                    use.reads.append((m, n))
    return use


def _callee_mutates_param(db, fn: FuncInfo, call: ast.Call, idx, kw, muts: Set[str]) -> bool:
    f = call.func
    callees: List[FuncInfo] = []
    if isinstance(f, ast.Attribute) and isinstance(f.value, ast.Name) and f.value.id == "self" and fn.cls is not None:
        for c in fn.cls.all_subclasses():
            m = c.lookup(f.attr)
            if m is not None and m not in callees:
                callees.append(m)
    else:
        r = resolve_call_target(db, fn, call)
        if isinstance(r, FuncInfo):
            callees.append(r)
    for cal in callees:
        params = [p for p, _ in fn_params(cal)]
        pname = kw if kw is not None else (params[idx] if idx is not None and idx < len(params) else None)
        if pname is None:
            continue
        defs = local_defs(cal)
        aliases = {pname}
        changed = True
        while changed:
            changed = False
            for name, vals in defs.items():
                if name in aliases:
                    continue
                for v in vals:
                    if isinstance(v, ast.AST) and any(isinstance(x, ast.Name) and x.id in aliases for x in ast.walk(v)) \
                            and isinstance(v, (ast.IfExp, ast.Name, ast.BoolOp)):
                        aliases.add(name)
                        changed = True
        for n in own_nodes(cal.node):
            if isinstance(n, ast.Call) and isinstance(n.func, ast.Attribute) and isinstance(n.func.value, ast.Name) \
                    and n.func.value.id in aliases and n.func.attr in muts:
                return True
    return False


def evaluation_functions(db: ProgramDB, cg: CallGraph) -> Tuple[Set[str], Set[str]]:
    """(functions reachable from evaluation methods, functions reachable from constructors only)"""
    se = db.cls("SymbolicExpression")
    eval_roots, ctor_roots = [], []
    for f in db.all_functions():
        if f.cls is not None and f.cls.is_subclass_of(se) and is_eval_method_name(f.name):
            eval_roots.append(f.qualname)
        if f.name in ("__post_init__", "__init__", "__new__"):
            ctor_roots.append(f.qualname)
    ev = cg.reach(eval_roots, named=True, ctor=False)
    ct = cg.reach(ctor_roots, named=False)
    return ev, ct - ev


def reset_chain_assigns(db: ProgramDB, cls: ClassInfo, method="_reset_only_my_cache_", every_path: bool = False) -> Set[str]:
    """self attributes (re)assigned or cleared by cls's effective reset method, following super() calls."""
    out: Set[str] = set()
    seen = set()
    mro = cls.mro

    def visit(i: int):
        for j in range(i, len(mro)):
            if method in mro[j].methods:
                m = mro[j].methods[method]
                if m.qualname in seen:
                    return
                seen.add(m.qualname)
                cfg = CFG(m)

                def on_every_path(attr: str) -> bool:
                    """no path from the entry of the reset method to its end avoids every re-creation / clearing of the field"""
                    def resets(nd):
                        if nd.ast is None or nd.kind != "stmt":
                            return False
                        x = nd.ast
                        if isinstance(x, ast.Assign) and any(isinstance(t, ast.Attribute) and isinstance(t.value, ast.Name) and t.value.id == "self" and t.attr == attr
                                                             for t in x.targets):
                            return True
                        return any(isinstance(c, ast.Call) and isinstance(c.func, ast.Attribute) and c.func.attr == "clear" and isinstance(c.func.value, ast.Attribute)
                                   and isinstance(c.func.value.value, ast.Name) and c.func.value.value.id == "self" and c.func.value.attr == attr for c in ast.walk(x))
                    if not every_path or resets(cfg.nodes[cfg.entry]):
                        return True
                    return cfg.find_path(cfg.entry, lambda nd: nd.id == cfg.exit, kinds=("n",), blocked=resets) is None
                for n in own_nodes(m.node):
                    if isinstance(n, ast.Assign):
                        for t in n.targets:
                            if isinstance(t, ast.Attribute) and isinstance(t.value, ast.Name) and t.value.id == "self" and on_every_path(t.attr):
                                out.add(t.attr)
                    elif isinstance(n, ast.Call) and isinstance(n.func, ast.Attribute) and n.func.attr == "clear":
                        r = n.func.value
                        if isinstance(r, ast.Attribute) and isinstance(r.value, ast.Name) and r.value.id == "self" and on_every_path(r.attr):
                            out.add(r.attr)
                    elif isinstance(n, ast.Call) and isinstance(n.func, ast.Attribute) and isinstance(n.func.value, ast.Call) \
                            and isinstance(n.func.value.func, ast.Name) and n.func.value.func.id == "super" \
                            and n.func.attr == method:
                        visit(j + 1)
                return
    visit(0)
    return out


def reset_traversal_reaches(db: ProgramDB, cls: ClassInfo) -> bool:
    """cls's effective _reset_cache_ calls its _reset_only_my_cache_ (directly or via super)."""
    m = cls.lookup("_reset_cache_")
    if m is None:
        return False
    for n in own_nodes(m.node):
        if isinstance(n, ast.Call) and call_attr(n) == "_reset_only_my_cache_":
            return True
        if isinstance(n, ast.Call) and call_attr(n) == "_reset_cache_" and isinstance(n.func.value, ast.Call):
            return True
    return False


PERSISTENT_TYPES = {"IndexedCache": "result cache: the property names it as intended to persist across evaluations; its "
                                    "coverage discipline is decided by COVERAGE-AFTER-COMPLETION"}
PERSISTENT_FIELDS = {("Variable", "_domain_"): "memoised, lazily consumed domain: the property names it as intended to "
                                               "persist (decided by C07 MEMO-ON-PULL)"}


def _benign(db: ProgramDB, use: FieldUse, fname: str) -> Optional[str]:
    """A field is benign when every function that reads or mutates it is a plain procedure (not a generator, returns
    no value) that writes no other state of the node - nothing an evaluation yields or decides can depend on it."""
    fns = {m.qualname: m for m, *_ in use.mutations}
    fns.update({m.qualname: m for m, _ in use.reads})
    for m in fns.values():
        if m.is_generator:
            return None
        for n in own_nodes(m.node):
            if isinstance(n, ast.Return) and n.value is not None and not (isinstance(n.value, ast.Constant) and n.value.value is None):
                return None
            if isinstance(n, (ast.Assign, ast.AugAssign)):
                for t in (n.targets if isinstance(n, ast.Assign) else [n.target]):
                    b = t
                    while isinstance(b, ast.Subscript):
                        b = b.value
                    if isinstance(b, ast.Attribute) and isinstance(b.value, ast.Name) and b.value.id == "self" and b.attr != fname:
                        return None
            if isinstance(n, ast.Call) and isinstance(n.func, ast.Attribute) and n.func.attr in BUILTIN_MUTATORS:
                r = n.func.value
                while isinstance(r, ast.Subscript):
                    r = r.value
                if isinstance(r, ast.Attribute) and isinstance(r.value, ast.Name) and r.value.id == "self" and r.attr != fname:
                    return None
    return "only read and written inside procedures that return nothing and touch no other state (diagnostics)"


def _own_eval_closure(db: ProgramDB, cg: CallGraph, cls: ClassInfo) -> Set[str]:
    """Functions reachable through self-calls (precise edges, no constructors) from cls's own evaluation methods."""
    roots = []
    seen_names = set()
    for c in cls.mro:
        for name, m in c.methods.items():
            if is_eval_method_name(name) and name not in seen_names:
                seen_names.add(name)
                roots.append(m.qualname)
    # restrict virtual self-calls to what cls actually dispatches to
    out: Set[str] = set()
    work = list(roots)
    while work:
        q = work.pop()
        if q in out:
            continue
        out.add(q)
        for d in cg.callees(q, named=False, ctor=False):
            f = db.functions[d]
            if f.cls is not None and cls.is_subclass_of(f.cls.name) is False and f.cls.is_subclass_of(db.cls("SymbolicExpression")):
                # method of an unrelated expression class: not dispatched on this receiver
                continue
            if f.cls is not None and f.cls.is_subclass_of(db.cls("SymbolicExpression")):
                actual = cls.lookup(f.name) or cls.lookup_setter(f.name)
                if actual is not None and actual.qualname != f.qualname:
                    continue
            work.append(d)
    return out


def rule_eval_state_reset(db: ProgramDB) -> List[Instance]:
    out = []
    cg = CallGraph(db)
    ev_fns, ctor_only = evaluation_functions(db, cg)
    se = db.cls("SymbolicExpression")
    for cls in sorted(se.all_subclasses(), key=lambda c: c.qualname):
        for fld in cls.own_fields:
            if fld.classvar:
                continue
            types = _factory_types(fld.default) if fld.default_is_factory else set()
            if not types:
                continue
            use = field_uses(db, cls, fld, types)
            ev_muts = [(m, n, how) for m, n, how in use.mutations if m.qualname in ev_fns and m.name not in
                       ("_reset_only_my_cache_", "_reset_cache_")]
            key = f"{cls.name}.{fld.name}"
            if not ev_muts:
                out.append(inst("EVAL-STATE-RESET", INFO, cls, key, "container field not mutated by evaluation code",
                                line=fld.lineno))
                continue
            if types & set(PERSISTENT_TYPES):
                out.append(inst("EVAL-STATE-RESET", HOLDS, cls, key,
                                f"persistent by type ({', '.join(sorted(types & set(PERSISTENT_TYPES)))}): "
                                + PERSISTENT_TYPES[next(iter(types & set(PERSISTENT_TYPES)))], line=fld.lineno))
                continue
            if (cls.name, fld.name) in PERSISTENT_FIELDS:
                out.append(inst("EVAL-STATE-RESET", HOLDS, cls, key, "persistent by design: "
                                + PERSISTENT_FIELDS[(cls.name, fld.name)], line=fld.lineno))
                continue
            # concrete/abstract classes whose own evaluation reaches a mutation of the field on `self`
            mut_fns = {m.qualname for m, _, _ in ev_muts}
            mut_classes = []
            not_reset = []
            for s in sorted(cls.all_subclasses(), key=lambda c: c.name):
                if not (_own_eval_closure(db, cg, s) & mut_fns):
                    continue
                mut_classes.append(s)
                if fld.name not in reset_chain_assigns(db, s, every_path=True) or not reset_traversal_reaches(db, s):
                    not_reset.append(s.name)
            if not mut_classes:
                out.append(inst("EVAL-STATE-RESET", INFO, cls, key,
                                "mutating code is not reachable from the evaluation of any class that owns the field "
                                "(constructor-time or fresh-object mutation)", line=fld.lineno))
                continue
            if not not_reset:
                out.append(inst("EVAL-STATE-RESET", HOLDS, cls, key,
                                f"mutated during the evaluation of {[k.name for k in mut_classes][:8]}"
                                f"{'…' if len(mut_classes) > 8 else ''}; re-created by _reset_only_my_cache_ of each of "
                                f"them, which the _reset_cache_ traversal calls", line=fld.lineno))
                continue
            # re-initialised at the start of every evaluation function that touches it?
            touching = {m.qualname: m for m, *_ in ev_muts}
            touching.update({m.qualname: m for m, _ in use.reads if m.qualname in ev_fns})
            reinit_fns = {m.qualname for m, _ in use.reinit}
            if touching and all(_reinit_dominates(db, m, fld.name) for m in touching.values() if is_eval_method_name(m.name)) \
                    and all(q in reinit_fns or not is_eval_method_name(db.functions[q].name) for q in touching) \
                    and any(is_eval_method_name(m.name) for m in touching.values()):
                out.append(inst("EVAL-STATE-RESET", HOLDS, cls, key,
                                "re-initialised to a fresh container before its first use in each evaluation",
                                line=fld.lineno))
                continue
            b = _benign(db, use, fld.name)
            if b:
                out.append(inst("EVAL-STATE-RESET", HOLDS, cls, key, f"benign: {b}", line=fld.lineno))
                continue
            m, n, how = ev_muts[0]
            out.append(inst("EVAL-STATE-RESET", VIOLATION, cls, key,
                            f"mutated during evaluation ({m.short}: `{unparse(n)[:70]}` {how}; {len(ev_muts)} site(s)) "
                            f"and read by evaluation code, but not re-created by the reset of {sorted(set(not_reset))} "
                            f"and not re-initialised per evaluation: what one evaluation leaves here changes the next",
                            line=fld.lineno, detail=[f"{mm.short}:{getattr(nn, 'lineno', 0)} {hh}" for mm, nn, hh in ev_muts]))
    out.extend(_foreign_flag_writes(db, ev_fns))
    return out


PER_ROW_PROTOCOL_FIELDS = {
    "_is_false_": "the truth of the row a node handed on last; every evaluation method assigns it for itself before each row it hands on "
                  "(decided by CMP-TRUTH / LOGIC-TRUTH / QUANT-TRUTH), so it is per-row state of the evaluation protocol, not residue",
}


def _foreign_flag_writes(db: ProgramDB, ev_fns: Set[str]) -> List[Instance]:
    """Evaluation code that sets a scalar field of ANOTHER node (`other._flag_ = <constant>`), a field evaluation code also
    reads: the write outlives the evaluation unless a reset undoes it - either the reset of the class that owns the field
    (`self._flag_ = …` in a _reset_only_my_cache_), or the reset of the class that wrote it (`x._flag_ = …` there)."""
    out = []
    se = db.cls("SymbolicExpression")
    field_names = {f.name for c in [se] + se.all_subclasses() for f in c.own_fields if not f.classvar}
    resets = [m for c in [se] + se.all_subclasses() for n, m in c.methods.items() if n == "_reset_only_my_cache_" and m.cls is c]
    reset_self: Set[str] = set()
    reset_foreign: Dict[str, Set[str]] = {}
    for m in resets:
        for n in own_nodes(m.node):
            if isinstance(n, ast.Assign):
                for t in n.targets:
                    if isinstance(t, ast.Attribute) and isinstance(t.value, ast.Name):
                        if t.value.id == "self":
                            reset_self.add(t.attr)
                        else:
                            reset_foreign.setdefault(m.cls.name, set()).add(t.attr)
    # the block API (`with query:` / symbolic_mode(query)) is reachable from evaluation only through symbolic_mode(...); the
    # entries call it without a query (to switch the mode off), so __enter__/__exit__ of an expression do not run then
    from ..facts import resolve_call_target as _rct
    block_api_runs_in_evaluation = False
    for q in sorted(ev_fns):
        f = db.functions[q]
        if f.qualname in ("symbolic:symbolic_mode", "symbolic:rule_mode"):
            continue
        for c in own_calls(f):
            t = _rct(db, f, c)
            if isinstance(t, FuncInfo) and t.qualname in ("symbolic:symbolic_mode", "symbolic:rule_mode"):
                if c.args or any(k.arg == "query" for k in c.keywords):
                    block_api_runs_in_evaluation = True
    for q in sorted(ev_fns):
        f = db.functions[q]
        if f.cls is None or not f.cls.is_subclass_of(se) or f.name in ("_reset_only_my_cache_", "_reset_cache_"):
            continue
        if f.name in ("__enter__", "__exit__") and not block_api_runs_in_evaluation:
            continue
        for n in own_nodes(f.node):
            if not isinstance(n, ast.Assign) or not isinstance(n.value, ast.Constant) or n.value.value is None:
                continue
            for t in n.targets:
                if isinstance(t, ast.Attribute) and t.attr in field_names and not (isinstance(t.value, ast.Name) and t.value.id == "self") \
                        and not isinstance(t.value, ast.Call):
                    # is the field read by evaluation code at all?
                    read = any(isinstance(x, ast.Attribute) and x.attr == t.attr and isinstance(x.ctx, ast.Load)
                               for q2 in ev_fns for x in own_nodes(db.functions[q2].node))
                    if not read:
                        continue
                    if t.attr in PER_ROW_PROTOCOL_FIELDS:
                        out.append(inst("EVAL-STATE-RESET", INFO, f, f"{f.short}[{unparse(t)} = {unparse(n.value)}]",
                                        f"frozen exception: {PER_ROW_PROTOCOL_FIELDS[t.attr]}", line=n.lineno))
                        continue
                    undone = t.attr in reset_self or any(t.attr in reset_foreign.get(k.name, set()) for k in f.cls.mro)
                    if not undone:
                        # a bracket inside the function itself: the flag is given to the elements of a local collection and taken back
                        # from the same collection on EVERY exit (normal, exceptional, the generator closed while suspended)
                        br = _bracketed_foreign_flag(db, f, n, t)
                        if br is not None:
                            out.append(inst("EVAL-STATE-RESET", HOLDS, f, f"{f.short}[{unparse(t)} = {unparse(n.value)}]", br, line=n.lineno))
                            continue
                    if undone and t.attr not in reset_self:
                        # the reset withdraws the flag from exactly the nodes this evaluation gave it to: the collection it walks
                        # is the one the setter records the node in
                        recorded = {unparse(c.func.value) for c in own_nodes(f.node) if isinstance(c, ast.Call) and call_attr(c) in ("append", "add")
                                    and c.args and unparse(c.args[0]) == unparse(t.value)}
                        walked = set()
                        for r in resets:
                            if not any(k.name == r.cls.name for k in f.cls.mro):
                                continue
                            for l in own_nodes(r.node):
                                if isinstance(l, ast.For) and any(isinstance(a2, ast.Assign) and any(isinstance(tt, ast.Attribute) and tt.attr == t.attr
                                                                  for tt in a2.targets) for a2 in ast.walk(l)):
                                    walked.add(unparse(l.iter))
                        if recorded and walked and not (recorded & walked):
                            out.append(inst("EVAL-STATE-RESET", VIOLATION, f, f"{f.short}[{unparse(t)} = {unparse(n.value)}]",
                                            f"the reset withdraws `{t.attr}` from `{sorted(walked)[0]}`, not from `{sorted(recorded)[0]}` where evaluation "
                                            f"records the nodes it set it on: nodes that have the flag for another reason (a variable declared "
                                            f"inferred by infer()) lose it after the first evaluation", line=n.lineno))
                            continue
                    out.append(inst("EVAL-STATE-RESET", HOLDS if undone else VIOLATION, f, f"{f.short}[{unparse(t)} = {unparse(n.value)}]",
                                    f"the flag set on another node during evaluation is withdrawn by a reset" if undone else
                                    f"`{unparse(n)}` sets a flag on another node (a selected variable shared with other queries) during "
                                    f"evaluation and no reset withdraws it: after this query was evaluated once, every query that shares "
                                    f"the node behaves as if the flag had always been set", line=n.lineno))
    return out


def _bracketed_foreign_flag(db: ProgramDB, f: FuncInfo, n: ast.Assign, t: ast.Attribute) -> Optional[str]:
    """reason text when the write `n` (target `t`) is one half of a set / take-back bracket over one local collection that is closed
    on every exit of f; None otherwise"""
    loops = [l for l in own_nodes(f.node) if isinstance(l, ast.For) and any(x is n for x in ast.walk(l))]
    if not loops or not isinstance(loops[-1].iter, ast.Name):
        return None
    coll = loops[-1].iter.id
    fld = db.field_default(t.attr) if hasattr(db, "field_default") else None
    # the two halves: writes of a constant to the same attribute inside loops over the same collection
    halves = [(a, l) for l in own_nodes(f.node) if isinstance(l, ast.For) and isinstance(l.iter, ast.Name) and l.iter.id == coll
              for a in ast.walk(l) if isinstance(a, ast.Assign) and isinstance(a.value, ast.Constant)
              and any(isinstance(tt, ast.Attribute) and tt.attr == t.attr and not (isinstance(tt.value, ast.Name) and tt.value.id == "self") for tt in a.targets)]
    values = {a.value.value for a, _ in halves}
    if len(values) != 2:
        return None
    # the collection is local and not modified after it was built
    defs = [a for a in own_nodes(f.node) if isinstance(a, ast.Assign) and any(isinstance(x, ast.Name) and x.id == coll for x in a.targets)]
    if len(defs) != 1 or any(isinstance(c, ast.Call) and isinstance(c.func, ast.Attribute) and isinstance(c.func.value, ast.Name) and c.func.value.id == coll
                             and c.func.attr in ("append", "extend", "pop", "remove", "clear", "insert") for c in own_nodes(f.node)):
        return None
    cfg = CFG(f)
    first = min(halves, key=lambda h: h[0].lineno)
    last_val = max(halves, key=lambda h: h[0].lineno)[0].value.value
    setters = [a for a, _ in halves if a.value.value != last_val]
    takers = {id(a) for a, _ in halves if a.value.value == last_val}

    taker_loops = [l for a2, l in halves if id(a2) in takers]

    def takes_back(nd):
        # entering the loop that takes the flag back from every element (with no element there is nothing to take back)
        return (nd.kind == "for" and any(nd.stmt is l for l in taker_loops)) or (nd.kind == "stmt" and nd.ast is not None and id(nd.ast) in takers)
    for a in setters:
        start = next((nd for nd in cfg.nodes if nd.kind == "stmt" and nd.ast is a and not nd.region), None)
        if start is None:
            return None
        set_loop = next(l for a2, l in halves if a2 is a)
        loop_ids = {id(x) for x in ast.walk(set_loop)}

        def edge_ok(e, loop_ids=loop_ids):
            # giving the flag (a constant stored in an attribute, a loop over a local list) does not raise
            src = cfg.nodes[e.src]
            if e.kind == "e" and (src.ast is not None and id(src.ast) in loop_ids or (src.kind == "for" and src.stmt is set_loop)):
                return False
            return cfg.no_cleanup_exc(e)
        leak = cfg.find_path(start.id, lambda nd: nd.id in (cfg.exit, cfg.raise_exit) or nd.kind == "closed", kinds=("n", "e", "s"), blocked=takes_back,
                             edge_ok=edge_ok)
        if leak is not None:
            return None
    return (f"set on the elements of the local `{coll}` and taken back from the same elements on every exit of {f.short} (normal, exceptional, closed while "
            f"suspended)")


def _reinit_dominates(db: ProgramDB, m: FuncInfo, attr: str) -> bool:
    cfg = CFG(m)
    def is_reinit(n: Node):
        a = n.ast
        return n.kind == "stmt" and isinstance(a, ast.Assign) and any(
            isinstance(t, ast.Attribute) and t.attr == attr and isinstance(t.value, ast.Name) and t.value.id == "self"
            for t in a.targets) and _is_fresh_container(a.value)
    def uses(n: Node):
        if n.ast is None or n.kind in ("with_exit", "join") or is_reinit(n):
            return False
        scan = n.ast
        if n.kind == "for":
            scan = n.ast.iter
        elif n.kind == "with_enter":
            scan = n.item.context_expr
        elif isinstance(scan, (ast.If, ast.While, ast.For, ast.With, ast.Try, ast.FunctionDef, ast.ClassDef)):
            return False
        return any(isinstance(x, ast.Attribute) and x.attr == attr and isinstance(x.value, ast.Name) and x.value.id == "self"
                   for x in ast.walk(scan))
    if not any(is_reinit(n) for n in cfg.nodes):
        return False
    p = cfg.find_path(cfg.entry, uses, kinds=("n",), blocked=is_reinit)
    return p is None


# ---------------------------------------------------------------------------------- COVERAGE-AFTER-COMPLETION
def coverage_writers(db: ProgramDB) -> Dict[str, Set[str]]:
    """{class name: method names} that record coverage in a SeenSet reachable from an IndexedCache."""
    seen = db.cls("SeenSet")
    ic = db.cls("IndexedCache")
    s_m = self_mutating_methods(db, seen) - {"clear"}
    i_m = set()
    for name, m in ic.methods.items():
        if name in ("clear", "__post_init__"):
            continue
        for c in own_calls(m):
            f = c.func
            if isinstance(f, ast.Attribute) and f.attr in s_m and isinstance(f.value, ast.Attribute) \
                    and f.value.attr == "seen_set":
                i_m.add(name)
    return {"SeenSet": s_m, "IndexedCache": i_m}


def _cache_receivers(db: ProgramDB, fn: FuncInfo) -> Set[str]:
    """source text of expressions in fn that denote an IndexedCache: self.<IndexedCache field>, parameters/locals
    annotated or defaulted from them."""
    out = set()
    if fn.cls is None:
        return out
    for c in fn.cls.all_subclasses() + fn.cls.mro:
        for f in c.own_fields:
            if "IndexedCache" in (_factory_types(f.default) if f.default_is_factory else set()) or \
                    "IndexedCache" in f.annotation_src:
                out.add(f"self.{f.name}")
    a = fn.node.args
    for p in a.args + a.kwonlyargs:
        if p.annotation is not None and "IndexedCache" in unparse(p.annotation):
            out.add(p.arg)
    for name, vals in local_defs(fn).items():
        for v in vals:
            if isinstance(v, ast.AST) and any(unparse(x) in out for x in ast.walk(v) if isinstance(x, (ast.Attribute, ast.Name))):
                if isinstance(v, (ast.IfExp, ast.Attribute, ast.Name)):
                    out.add(name)
    return out


def coverage_write_sites(db: ProgramDB) -> List[Tuple[FuncInfo, ast.Call, str]]:
    """Calls in evaluation generators that (transitively) record coverage."""
    w = coverage_writers(db)
    bo = db.cls("BinaryOperator")
    # helper methods of expression classes that write coverage through an IndexedCache
    helpers: Set[str] = set()
    for c in bo.all_subclasses():
        for m in c.methods.values():
            if m.is_generator and is_eval_method_name(m.name):
                continue
            recv = _cache_receivers(db, m)
            for call in own_calls(m):
                f = call.func
                if isinstance(f, ast.Attribute) and f.attr in w["IndexedCache"] and unparse(f.value) in recv:
                    helpers.add(m.name)
    sites = []
    se = db.cls("SymbolicExpression")
    for c in se.all_subclasses():
        for m in c.methods.values():
            if not m.is_generator:
                continue
            recv = _cache_receivers(db, m)
            for call in own_calls(m):
                f = call.func
                if not isinstance(f, ast.Attribute):
                    continue
                if f.attr in w["IndexedCache"] and unparse(f.value) in recv:
                    sites.append((m, call, f"IndexedCache.{f.attr}"))
                elif f.attr in helpers and isinstance(f.value, ast.Name) and f.value.id == "self":
                    sites.append((m, call, f"{f.attr} -> IndexedCache.insert -> SeenSet.add"))
    return sites


def unsafe_coverage_sites(db: ProgramDB):
    """Coverage writes after which the same generator can still yield (so the producing loop may never finish)."""
    out = []
    for m, call, via in coverage_write_sites(db):
        cfg = CFG(m)
        nodes = [n for n in cfg.nodes if not n.region and any(c is call for c in _node_calls(n))]
        unsafe = False
        for n in nodes:
            reach = cfg.reachable([n.id], kinds=("n",))
            if any(cfg.nodes[r].has_yield for r in reach):
                unsafe = True
        out.append((m, call, via, unsafe))
    return out


def _invalidators(db: ProgramDB, cg: CallGraph) -> Dict[str, str]:
    """Methods of SymbolicExpression that, called on the root, clear every IndexedCache field of every BinaryOperator
    of the tree: {method name: explanation}.  Shape accepted: a traversal method T (calls a per-node method N on self
    and T on every child from self._children_), with N overridden on BinaryOperator (or above) clearing all its
    IndexedCache-typed fields - each by name, or generically by scanning vars(self) for IndexedCache instances."""
    se = db.cls("SymbolicExpression")
    bo = db.cls("BinaryOperator")
    res: Dict[str, str] = {}
    for tname, t in se.methods.items():
        if tname in ("_reset_cache_",):
            continue
        # traversal?
        per_node = set()
        recurses = False
        for n in own_nodes(t.node):
            if isinstance(n, (ast.For,)) and "_children_" in unparse(n.iter):
                for c in ast.walk(n):
                    if isinstance(c, ast.Call) and call_attr(c) == tname:
                        recurses = True
            if isinstance(n, ast.Call) and isinstance(n.func, ast.Attribute) and isinstance(n.func.value, ast.Name) \
                    and n.func.value.id == "self" and n.func.attr != tname:
                per_node.add(n.func.attr)
        if not recurses:
            continue
        for nname in per_node:
            ok_all = True
            why = []
            for c in bo.all_subclasses():
                cache_fields = [f.name for k in c.mro for f in k.own_fields
                                if f.default_is_factory and "IndexedCache" in _factory_types(f.default)]
                cleared = _cleared_fields(db, c, nname)
                if cleared is True:
                    continue
                missing = [f for f in cache_fields if f not in cleared]
                if missing:
                    ok_all = False
                    why.append(f"{c.name} leaves {missing}")
            # no subclass may cut the traversal
            for c in se.all_subclasses(include_self=False):
                if tname in c.methods:
                    body = [s for s in c.methods[tname].node.body]
                    if not any(isinstance(x, ast.Call) and call_attr(x) == tname for s in body for x in ast.walk(s)):
                        # an override that does not continue the traversal: acceptable only for leaves without children
                        if c.is_subclass_of(bo):
                            ok_all = False
                            why.append(f"{c.name}.{tname} cuts the traversal")
            if ok_all:
                res[tname] = f"{tname} visits every node and {nname} clears every IndexedCache field of BinaryOperator nodes"
    return res


def _cleared_fields(db: ProgramDB, cls: ClassInfo, method: str):
    """True if cls's effective `method` clears every IndexedCache in vars(self) generically; else the set of self
    fields on which .clear() is called (following super())."""
    out: Set[str] = set()
    mro = cls.mro
    generic = False

    def visit(i):
        nonlocal generic
        for j in range(i, len(mro)):
            if method in mro[j].methods:
                m = mro[j].methods[method]
                src = unparse(m.node)
                for n in own_nodes(m.node):
                    if isinstance(n, ast.Call) and call_attr(n) == "clear":
                        r = n.func.value
                        if isinstance(r, ast.Attribute) and isinstance(r.value, ast.Name) and r.value.id == "self":
                            out.add(r.attr)
                        elif isinstance(r, ast.Name):
                            # for x in vars(self).values(): if isinstance(x, IndexedCache): x.clear()
                            if ("vars(self)" in src or "self.__dict__" in src) and "IndexedCache" in src:
                                generic = True
                    if isinstance(n, ast.Call) and call_attr(n) == method and isinstance(n.func.value, ast.Call):
                        visit(j + 1)
                return
    visit(0)
    return True if generic else out


def rule_coverage_after_completion(db: ProgramDB) -> List[Instance]:
    out = []
    cg = CallGraph(db)
    sites = unsafe_coverage_sites(db)
    unsafe = [(m, c, via) for m, c, via, u in sites if u]
    inv = _invalidators(db, cg)
    entries = public_entries(db)
    # per entry: does every exceptional / close path from a point that runs evaluation pass an invalidation?
    entry_ok: Dict[str, Optional[List[str]]] = {}
    for e in entries:
        em = entry_model(db, e)
        cfg = em.cfg
        is_inv = lambda n: any(call_attr(c) in inv and isinstance(c.func.value, ast.Name) and c.func.value.id == "self"
                               for c in _node_calls(n) if isinstance(c.func, ast.Attribute))
        bad = None
        for rn in em.run_nodes:
            # paths that leave abnormally: reach `raise`/`closed`
            p = cfg.find_path(rn.id, lambda n: n.kind in ("raise", "closed"), blocked=is_inv, edge_ok=cfg.no_cleanup_exc)
            if p is not None:
                bad = cfg.describe_path(p)
                break
        entry_ok[e.qualname] = bad
    rollback_everywhere = all(v is None for v in entry_ok.values()) and bool(inv)
    ordinal: Dict[str, int] = {}

    def site_key(m, call):
        base = f"{m.short}[{unparse(call)[:60]}]"
        sites_same = sorted([c.lineno for mm, c, _, _ in sites if mm is m and unparse(c) == unparse(call)])
        if len(sites_same) > 1:
            return f"{base}#{sites_same.index(call.lineno) + 1}"
        return base

    for m, call, via in unsafe:
        key = site_key(m, call)
        if rollback_everywhere:
            out.append(inst("COVERAGE-AFTER-COMPLETION", HOLDS, m, key,
                            f"coverage is recorded ({via}) while rows are still being produced, and every public entry "
                            f"rolls the result caches back ({', '.join(inv)}) on each exit on which evaluation did not "
                            f"run to completion", line=call.lineno))
        else:
            missing = [q for q, v in entry_ok.items() if v is not None] if inv else [e.qualname for e in entries]
            out.append(inst("COVERAGE-AFTER-COMPLETION", VIOLATION, m, key,
                            f"coverage is recorded ({via}) before the loop that produces the covered rows has finished, "
                            f"and a yield can follow: if the result iterator is abandoned or user code raises, the cache "
                            f"claims rows it never stored and later evaluations silently lose them. No rollback on the "
                            f"abnormal exits of {missing}" + ("" if inv else " (no cache-invalidation traversal exists)"),
                            line=call.lineno, detail=entry_ok))
    for m, call, via, u in sites:
        if not u:
            out.append(inst("COVERAGE-AFTER-COMPLETION", HOLDS, m, site_key(m, call),
                            f"coverage write ({via}) is not followed by a yield of the same generator", line=call.lineno))
    for e in entries:
        if inv:
            bad = entry_ok[e.qualname]
            out.append(inst("COVERAGE-AFTER-COMPLETION", HOLDS if bad is None else VIOLATION, e,
                            f"{e.short}[rollback on abnormal exits]",
                            "every exceptional / close path from a point that runs evaluation invalidates the result "
                            "caches of the tree" if bad is None else
                            "an abnormal exit skips the invalidation of the result caches: " + " ".join(bad[-3:]),
                            detail=bad))
    return out


# ---------------------------------------------------------------------------------- NO-DOMAIN-MUTATION
def _domain_tainted_names(fn: FuncInfo) -> Set[str]:
    """locals/params of fn that hold the user's domain object itself (not a lazy wrapper around it)."""
    tainted: Set[str] = set()
    for p in fn.params:
        if p in ("domain", "iterable"):
            tainted.add(p)
    defs = local_defs(fn)
    changed = True
    while changed:
        changed = False
        for name, vals in defs.items():
            if name in tainted:
                continue
            for v in vals:
                if isinstance(v, ast.AST):
                    # direct aliasing or attribute .domain of a From
                    if isinstance(v, ast.Name) and v.id in tainted:
                        tainted.add(name); changed = True
                    elif isinstance(v, ast.Attribute) and v.attr == "domain":
                        tainted.add(name); changed = True
                    elif isinstance(v, ast.BoolOp) and any(isinstance(x, ast.Name) and x.id in tainted for x in v.values):
                        tainted.add(name); changed = True
    return tainted


def domain_mutations(db: ProgramDB, fn: FuncInfo) -> List[Tuple[ast.AST, str]]:
    tainted = _domain_tainted_names(fn)
    bad = []

    def is_dom(e: ast.AST) -> bool:
        if isinstance(e, ast.Name) and e.id in tainted:
            return True
        if isinstance(e, ast.Attribute) and e.attr == "domain" and not (isinstance(e.value, ast.Name) and e.value.id == "self"
                                                                       and fn.cls is not None and fn.cls.name == "From"):
            # <From>.domain: the user's collection
            return True
        if isinstance(e, ast.Attribute) and e.attr == "iterable" and isinstance(e.value, ast.Name) and e.value.id == "self":
            return True
        return False

    for n in own_nodes(fn.node):
        if isinstance(n, ast.Call) and isinstance(n.func, ast.Attribute) and n.func.attr in BUILTIN_MUTATORS \
                and is_dom(n.func.value):
            bad.append((n, f"`{unparse(n)[:70]}` mutates the supplied domain"))
        elif isinstance(n, (ast.Assign, ast.AugAssign)):
            targets = n.targets if isinstance(n, ast.Assign) else [n.target]
            for t in targets:
                if isinstance(t, ast.Subscript) and is_dom(t.value):
                    bad.append((n, f"`{unparse(n)[:70]}` assigns into the supplied domain"))
                if isinstance(n, ast.AugAssign) and is_dom(t):
                    bad.append((n, f"`{unparse(n)[:70]}` updates the supplied domain in place"))
        elif isinstance(n, ast.Delete):
            for t in n.targets:
                if isinstance(t, ast.Subscript) and is_dom(t.value):
                    bad.append((n, f"`{unparse(n)[:70]}` deletes from the supplied domain"))
        if isinstance(n, (ast.Assign, ast.AugAssign)):
            # re-binding an attribute of a user-supplied From(...) object: the same From handed to a second variable
            # then carries the first variable's filtered, partly consumed iterator
            for t in (n.targets if isinstance(n, ast.Assign) else [n.target]):
                if isinstance(t, ast.Attribute) and t.attr == "domain" and isinstance(t.value, ast.Name) \
                        and t.value.id in fn.params and not (fn.cls is not None and fn.cls.name == "From"):
                    bad.append((n, f"`{unparse(n)[:70]}` modifies the From(...) object supplied by the caller"))
        elif isinstance(n, ast.Call) and isinstance(n.func, ast.Name) and n.func.id in ("setattr", "delattr") and n.args \
                and is_dom(n.args[0]):
            bad.append((n, f"`{unparse(n)[:70]}` sets an attribute on the supplied domain"))
    return bad


def rule_no_domain_mutation(db: ProgramDB) -> List[Instance]:
    out = []
    n_scanned = 0
    for fn in db.all_functions():
        if fn.module in ("utils", "rxnode") and fn.name not in ("make_list", "make_set", "make_tuple", "is_iterable"):
            continue
        n_scanned += 1
        for node, why in domain_mutations(db, fn):
            out.append(inst("NO-DOMAIN-MUTATION", VIOLATION, fn, f"{fn.short}[{unparse(node)[:50]}]", why, line=node.lineno))
    carriers = [fn for fn in db.all_functions() if _domain_tainted_names(fn) or
                any(isinstance(n, ast.Attribute) and n.attr == "domain" for n in own_nodes(fn.node))]
    for fn in carriers:
        if not domain_mutations(db, fn):
            out.append(inst("NO-DOMAIN-MUTATION", HOLDS, fn, fn.short,
                            "handles the user's domain object and applies no mutating operation to it"))
    example = ("def let2(type_, domain):\n    domain.sort()\n    d = domain\n    d.append(1)\n    return d\n")
    db2 = ProgramDB(repo=db.repo, overrides=dict(db.source_overrides, __eqlsa_example__=example))
    if len(domain_mutations(db2, db2.fn("__eqlsa_example__:let2"))) != 2:
        out.append(inst("NO-DOMAIN-MUTATION", UNDECIDED, "", "positive-example",
                        "the rule did not fire on its built-in positive example"))
    return out


# ---------------------------------------------------------------------------------- INTERNAL-ABANDON
NEXT_EXCEPTIONS = {
    "SetOf._evaluate__": "the selected expression is already bound in the row (guard `var._id_ in sol`): its evaluation is "
                         "the identity and records no coverage",
    "Set._evaluate__": "a conclusion assigns one value: the first row of a variable / mapping, which own no result cache",
    "Add._evaluate__": "a conclusion assigns one value: the first row of a variable / mapping, which own no result cache",
}


def rule_internal_abandon(db: ProgramDB) -> List[Instance]:
    """Engine code that stops consuming an evaluation stream before it is exhausted (break / return inside the loop over
    it) leaves the producer's result caches claiming coverage they do not have; no public-entry rollback runs, because
    the evaluation as a whole completes normally.  Such a site must invalidate the caches of the abandoned producer."""
    from ..evalsites import site_model
    out = []
    cg = CallGraph(db)
    inv = _invalidators(db, cg)
    model = site_model(db)
    unsafe = any(u for _, _, _, u in unsafe_coverage_sites(db))
    n = 0
    for fn in sorted(db.all_functions(), key=lambda f: f.qualname):
        for loop in model.stream_loops(fn):
            if not isinstance(loop, ast.For):
                continue
            # early exits that belong to this loop
            exits = []

            def visit(stmts, depth_loops):
                for st in stmts:
                    if isinstance(st, ast.Break) and depth_loops == 0:
                        exits.append(st)
                    elif isinstance(st, ast.Return):
                        exits.append(st)
                    elif isinstance(st, (ast.For, ast.While)):
                        visit(st.body, depth_loops + 1)
                        visit(st.orelse, depth_loops)
                    elif isinstance(st, ast.If):
                        visit(st.body, depth_loops); visit(st.orelse, depth_loops)
                    elif isinstance(st, (ast.With,)):
                        visit(st.body, depth_loops)
                    elif isinstance(st, ast.Try):
                        visit(st.body, depth_loops); visit(st.orelse, depth_loops); visit(st.finalbody, depth_loops)
                        for h in st.handlers:
                            visit(h.body, depth_loops)
            visit(loop.body, 0)
            if not exits:
                continue
            # the producer: receiver of the evaluation call the loop iterates
            recv = None
            it = loop.iter
            cands = [it] + [d for d in local_defs(fn).get(it.id, []) if isinstance(d, ast.AST)] if isinstance(it, ast.Name) else [it]
            for c in cands:
                for x in ast.walk(c):
                    if isinstance(x, ast.Call) and is_eval_method_name(call_attr(x)):
                        recv = unparse(x.func.value)
            cfg = CFG(fn)
            for ex in exits:
                n += 1
                key = f"{fn.short}[{type(ex).__name__.lower()} out of `for {unparse(loop.target)} in {unparse(loop.iter)[:40]}`]"
                nodes = [nd for nd in cfg.nodes if nd.ast is ex and not nd.region]
                if len(exits) > 1:
                    key += f"#{exits.index(ex) + 1}"
                if not unsafe:
                    out.append(inst("INTERNAL-ABANDON", HOLDS, fn, key, "no coverage is recorded before completion", line=ex.lineno))
                    continue
                if recv in ("self", None):
                    out.append(inst("INTERNAL-ABANDON", INFO, fn, key, "the abandoned stream is the node's own delegate", line=ex.lineno))
                    continue

                def is_inv(nd: Node) -> bool:
                    for c in _node_calls(nd):
                        if isinstance(c.func, ast.Attribute) and c.func.attr in inv and unparse(c.func.value) == recv:
                            return True
                    return False
                ok = True
                for nd in nodes:
                    # the invalidation may sit just before the break (dominating it in the same block) or after the loop
                    before = any(is_inv(p) for p in _block_predecessors(cfg, nd))
                    after = cfg.find_path(nd.id, _is_exit, kinds=("n",), blocked=is_inv) is None
                    if not (before or after):
                        ok = False
                out.append(inst("INTERNAL-ABANDON", HOLDS if ok else VIOLATION, fn, key,
                                f"the stream of `{recv}` is abandoned here and its result caches are invalidated "
                                f"(`{recv}.{next(iter(inv), '?')}()`)" if ok else
                                f"the stream of `{recv}` is abandoned here (line {ex.lineno}) while its operators have already "
                                f"recorded coverage for rows they did not produce, and nothing invalidates them: a later "
                                f"evaluation of that sub-expression (e.g. a sub-query shared with another query) silently "
                                f"returns only the rows produced so far - with caching enabled only", line=ex.lineno))
    for s in model.sites:
        if s.consumer in ("next", "iter"):
            why = NEXT_EXCEPTIONS.get(s.fn.short)
            out.append(inst("INTERNAL-ABANDON", INFO if why else UNDECIDED, s.fn, f"{s.fn.short}[next({unparse(s.call)[:40]})]",
                            f"takes only the first row of the stream; frozen exception: {why}" if why else
                            "takes only the first row of an evaluation stream: not in the table of accepted exceptions",
                            line=s.line))
    return out


def _block_predecessors(cfg: CFG, nd: Node) -> List[Node]:
    """Nodes that straight-line precede nd (single normal predecessor chain, stopping at a branch)."""
    out = []
    cur = nd
    for _ in range(6):
        preds = [e for e in cfg.pred[cur.id] if e.kind == "n"]
        if len(preds) != 1:
            break
        p = cfg.nodes[preds[0].src]
        if p.kind != "stmt":
            break
        out.append(p)
        cur = p
    return out


# ---------------------------------------------------------------------------------- NO-USER-VALUE-MUTATION
def user_value_mutations(db: ProgramDB, fn: FuncInfo) -> List[Tuple[ast.AST, str]]:
    """In-place mutation of a value taken out of a binding (`<hashed value>.value`, i.e. a user object or one of its
    attribute values), directly or after storing it into a local container slot that is mutated in place elsewhere."""
    tainted: Set[str] = set()
    defs = local_defs(fn)
    for name, vals in defs.items():
        for v in vals:
            if isinstance(v, ast.Attribute) and v.attr == "value" and not (isinstance(v.value, ast.Name) and v.value.id == "self"):
                tainted.add(name)
    bad = []
    slot_stores: Dict[str, ast.AST] = {}
    for n in own_nodes(fn.node):
        if isinstance(n, ast.Assign):
            for t in n.targets:
                if isinstance(t, ast.Subscript) and isinstance(n.value, ast.Name) and n.value.id in tainted:
                    slot_stores[unparse(t)] = n
    for n in own_nodes(fn.node):
        if isinstance(n, ast.Call) and isinstance(n.func, ast.Attribute) and n.func.attr in BUILTIN_MUTATORS:
            r = n.func.value
            if isinstance(r, ast.Name) and r.id in tainted:
                # a local re-bound to a fresh container before the mutation is fine only if every definition is fresh
                fresh_defs = [v for v in defs.get(r.id, []) if isinstance(v, (ast.List, ast.Dict, ast.Set))]
                if len(fresh_defs) < len(defs.get(r.id, [])):
                    bad.append((n, f"`{unparse(n)[:60]}` mutates a value taken out of a binding (a user object's value)"))
            elif unparse(r) in slot_stores:
                bad.append((n, f"`{unparse(slot_stores[unparse(r)])[:60]}` stores a value taken out of a binding into a slot that "
                               f"`{unparse(n)[:50]}` then mutates in place: the user's own collection is modified"))
        elif isinstance(n, ast.AugAssign):
            if isinstance(n.target, ast.Name) and n.target.id in tainted:
                bad.append((n, f"`{unparse(n)[:60]}` updates in place a value taken out of a binding"))
            elif unparse(n.target) in slot_stores:
                bad.append((n, f"`{unparse(n)[:60]}` updates in place a slot that aliases a value taken out of a binding"))
    return bad


def rule_no_user_value_mutation(db: ProgramDB) -> List[Instance]:
    out = []
    n = 0
    se = db.cls("SymbolicExpression")
    for c in sorted(se.all_subclasses(), key=lambda k: k.qualname):
        for m in c.methods.values():
            uses_values = any(isinstance(x, ast.Attribute) and x.attr == "value" and not (isinstance(x.value, ast.Name) and x.value.id == "self")
                              for x in own_nodes(m.node))
            if not uses_values:
                continue
            n += 1
            bad = user_value_mutations(db, m)
            if bad:
                for node, why in bad:
                    out.append(inst("NO-USER-VALUE-MUTATION", VIOLATION, m, f"{m.short}[{unparse(node)[:40]}]", why, line=node.lineno))
            else:
                out.append(inst("NO-USER-VALUE-MUTATION", HOLDS, m, m.short,
                                "takes values out of bindings and mutates none of them in place"))
    example = ("class X:\n    def f(self, val, acc):\n        chunk = val.value\n        if 1 in acc:\n            acc[1].extend(chunk)\n"
               "        else:\n            acc[1] = chunk\n        other = val.value\n        other.append(3)\n")
    db2 = ProgramDB(repo=db.repo, overrides=dict(db.source_overrides, __eqlsa_example__=example))
    if len(user_value_mutations(db2, db2.fn("__eqlsa_example__:X.f"))) != 2:
        out.append(inst("NO-USER-VALUE-MUTATION", UNDECIDED, "", "positive-example", "the rule did not fire on its built-in positive example"))
    return out


def rule_coverage_the_only(db: ProgramDB) -> List[Instance]:
    return [i for i in rule_coverage_after_completion(db) if "The.evaluate" in i.construct]


# ---------------------------------------------------------------------------------- TRAVERSAL-TOTAL
def rule_traversal_total(db: ProgramDB) -> List[Instance]:
    """The per-evaluation reset and the result-cache invalidation are recursive traversals of the expression tree
    (`for child in self._children_: child.<same method>()`).  They reach the state of every node only if the recursion is
    applied to every child on every path through the loop body - no child is skipped by kind or by a flag."""
    out = []
    se = db.cls("SymbolicExpression")
    n = 0
    for c in sorted([se] + se.all_subclasses(), key=lambda k: k.qualname):
        for m in c.methods.values():
            if m.cls is not c:
                continue
            for loop in [l for l in own_nodes(m.node) if isinstance(l, ast.For)]:
                if not (isinstance(loop.target, ast.Name) and "_children_" in unparse(loop.iter)):
                    continue
                tv = loop.target.id
                rec = [x for st in loop.body for x in ast.walk(st) if isinstance(x, ast.Call) and isinstance(x.func, ast.Attribute)
                       and isinstance(x.func.value, ast.Name) and x.func.value.id == tv and x.func.attr == m.name]
                if not rec:
                    continue
                n += 1
                cfg = CFG(m)
                heads = [nd for nd in cfg.nodes if nd.kind == "for" and nd.stmt is loop]
                if not heads:
                    raise AnalysisError(f"{m.short}: loop head not found in the CFG")
                h = heads[0]

                def is_rec(nd: Node) -> bool:
                    return nd.ast is not None and any(any(x is r for r in rec) for x in ast.walk(nd.ast)) and nd.kind != "for"
                skipping = None
                for e in cfg.succ[h.id]:
                    if e.kind != "n" or e.label != "iter":
                        continue
                    first = cfg.nodes[e.dst]
                    if is_rec(first):
                        continue
                    p = cfg.find_path(first.id, lambda nd: nd.id == h.id, kinds=("n",), blocked=is_rec)
                    if p is not None or first.id == h.id:
                        skipping = [e] + (p or [])
                ok = skipping is None
                out.append(inst("TRAVERSAL-TOTAL", HOLDS if ok else VIOLATION, m, f"{m.short}[every child]",
                                f"`{tv}.{m.name}()` is applied to every child on every path through the loop body" if ok else
                                f"a path through the loop body skips `{tv}.{m.name}()` for some children: "
                                f"{' '.join(cfg.describe_path(skipping)[:3])} - the state of the skipped subtree (duplicate-suppression "
                                f"sets, selector state, result caches) survives into the next evaluation", line=loop.lineno))
    if n == 0:
        raise AnalysisError("no recursive traversal over self._children_ found")
    return out


# ---------------------------------------------------------------------------------- EVAL-FLAG
def rule_eval_flag(db: ProgramDB) -> List[Instance]:
    """Scalar flags a node sets on ITSELF while it is evaluated and reads back through `self` (which side of a union produced
    the row, 'the kwargs expression is being evaluated') are per-evaluation state like the containers: what an abandoned
    evaluation leaves in them must not be read by the next one.  For every such flag either
      (a) every evaluation function that reads it assigns it first on every path (in itself, at the start of the generator
          it iterates, or in the only functions that call it), or
      (b) every assignment of a non-default value is followed, on every normal / exceptional / generator-close exit, by the
          assignment back to the default (a bracket closed in a finally), or
      (c) the per-evaluation reset assigns it."""
    out = []
    cg = CallGraph(db)
    ev_fns, _ = evaluation_functions(db, cg)
    se = db.cls("SymbolicExpression")
    n = 0
    for cls in sorted(se.all_subclasses(), key=lambda c: c.qualname):
        for fld in cls.own_fields:
            if fld.classvar or fld.default_is_factory or not isinstance(fld.default, ast.Constant) or not isinstance(fld.default.value, bool):
                continue
            F = fld.name
            default = fld.default.value
            users = [db.functions[q] for q in sorted(ev_fns) if db.functions[q].cls is not None and
                     (db.functions[q].cls.is_subclass_of(cls) or cls.is_subclass_of(db.functions[q].cls.name))]

            def self_attr(x, ctx):
                return isinstance(x, ast.Attribute) and x.attr == F and isinstance(x.value, ast.Name) and x.value.id == "self" and isinstance(x.ctx, ctx)
            writers = [(f, a) for f in users for a in own_nodes(f.node) if isinstance(a, ast.Assign) and any(self_attr(t, ast.Store) for t in a.targets)
                       and isinstance(a.value, ast.Constant)]
            readers = [(f, x) for f in users for x in own_nodes(f.node) if self_attr(x, ast.Load)]
            foreign = [f for f in db.all_functions() for x in own_nodes(f.node) if isinstance(x, ast.Attribute) and x.attr == F
                       and not (isinstance(x.value, ast.Name) and x.value.id == "self")]
            if not writers or not readers or foreign:
                continue
            writers = [(f, a) for f, a in writers if f.name not in ("_reset_only_my_cache_", "_reset_cache_", "__post_init__")]
            if not writers:
                continue
            n += 1
            key = f"{cls.name}.{F}"
            # (c)
            if any(F in reset_chain_assigns(db, s) for s in [cls] + cls.all_subclasses() if s.lookup("_reset_only_my_cache_")) and \
                    all(F in reset_chain_assigns(db, s) for s in [cls] + cls.all_subclasses()):
                out.append(inst("EVAL-FLAG", HOLDS, cls, key, "assigned by the per-evaluation reset", line=fld.lineno))
                continue
            # (b)
            bracket_ok = True
            why_b = ""
            for f, a in writers:
                if a.value.value == default:
                    continue
                cfg = CFG(f)
                opens = [nd for nd in cfg.nodes if nd.ast is a]
                if not opens:
                    continue

                def closes(nd, default=default):
                    x = nd.ast
                    return nd.kind == "stmt" and isinstance(x, ast.Assign) and any(self_attr(t, ast.Store) for t in x.targets) \
                        and isinstance(x.value, ast.Constant) and x.value.value == default
                exits = {cfg.exit, cfg.raise_exit, cfg.closed_exit} if hasattr(cfg, "raise_exit") else {cfg.exit}
                p = cfg.find_path(opens[0].id, lambda nd: nd.kind in ("exit", "raise", "closed"), kinds=("n", "e", "s"), blocked=closes,
                                  edge_ok=cfg.no_cleanup_exc)
                if p is not None:
                    bracket_ok = False
                    why_b = f"`{unparse(a)}` in {f.short} (line {a.lineno}) can be left standing: " + " ".join(cfg.describe_path(p)[-2:])
            if bracket_ok:
                out.append(inst("EVAL-FLAG", HOLDS, cls, key, "every non-default value is withdrawn on every exit of the function that sets it", line=fld.lineno))
                continue
            # (a)
            def entry_assigns(g: FuncInfo, for_cls: ClassInfo) -> bool:
                """g, run on an object of class for_cls, assigns self.F on every path before its first yield / before it returns"""
                from ..facts import cache_switch_value_for
                cfg = CFG(g)

                def is_w(nd):
                    x = nd.ast
                    return nd.kind == "stmt" and isinstance(x, ast.Assign) and any(self_attr(t, ast.Store) for t in x.targets)

                def edge_ok(e):
                    # a branch taken only when this class serves rows from its caches is dead for a class that never does
                    src = cfg.nodes[e.src]
                    if e.label == "T" and src.kind == "test" and hasattr(src.stmt, "test"):
                        t = src.stmt.test
                        conj = t.values if isinstance(t, ast.BoolOp) and isinstance(t.op, ast.And) else [t]
                        for c in conj:
                            if isinstance(c, ast.Call) and isinstance(c.func, ast.Attribute) and isinstance(c.func.value, ast.Name) \
                                    and c.func.value.id == "self" and not c.args and cache_switch_value_for(db, for_cls, c.func.attr) == "off":
                                return False
                    return True
                p = cfg.find_path(cfg.entry, lambda nd: nd.has_yield or nd.kind in ("exit", "return"), kinds=("n",), blocked=is_w, edge_ok=edge_ok)
                return p is None
            bad_reader = None
            for f, x in readers:
                cfg = CFG(f)
                rd = [nd for nd in cfg.nodes if nd.ast is not None and any(y is x for y in ast.walk(nd.ast if nd.kind not in ("test", "for") else
                                                                                                     (nd.stmt.test if nd.kind == "test" and hasattr(nd.stmt, "test") else nd.stmt.iter)))]
                if not rd:
                    continue

                def is_init(nd):
                    a = nd.ast
                    if nd.kind == "stmt" and isinstance(a, ast.Assign) and any(self_attr(t, ast.Store) for t in a.targets):
                        return True
                    # a loop over (or a call of) one of the object's own generators / methods that assigns the flag at its start
                    scan = nd.stmt.iter if nd.kind == "for" else (a if nd.kind == "stmt" else None)
                    if scan is not None:
                        for c in ast.walk(scan):
                            if isinstance(c, ast.Call) and isinstance(c.func, ast.Attribute):
                                recv = c.func.value
                                callee = None
                                if isinstance(recv, ast.Name) and recv.id == "self" and f.cls:
                                    callee = f.cls.lookup(c.func.attr)
                                elif isinstance(recv, ast.Call) and isinstance(recv.func, ast.Name) and recv.func.id == "super" and f.cls:
                                    for k in f.cls.mro[1:]:
                                        if c.func.attr in k.methods:
                                            callee = k.methods[c.func.attr]
                                            break
                                if callee is not None and callee.qualname != f.qualname and entry_assigns(callee, f.cls):
                                    return True
                            if isinstance(c, ast.Name) and nd.kind == "for":
                                for d in local_defs(f).get(c.id, []):
                                    if isinstance(d, ast.Call) and isinstance(d.func, ast.Attribute) and isinstance(d.func.value, ast.Call) \
                                            and isinstance(d.func.value.func, ast.Name) and d.func.value.func.id == "super" and f.cls:
                                        for k in f.cls.mro[1:]:
                                            if d.func.attr in k.methods:
                                                if entry_assigns(k.methods[d.func.attr], f.cls):
                                                    return True
                                                break
                    return False
                p = cfg.find_path(cfg.entry, lambda nd: nd.id == rd[0].id, kinds=("n",), blocked=is_init)
                if p is None:
                    continue
                # the reader is a helper: every call site of it (self.<reader>(…)) is preceded by an assignment in its caller
                callers = [(g, c) for g in users for c in own_calls(g) if isinstance(c.func, ast.Attribute) and c.func.attr == f.name
                           and isinstance(c.func.value, ast.Name) and c.func.value.id == "self" and g.qualname != f.qualname]
                helper_ok = bool(callers)
                for g, c in callers:
                    gcfg = CFG(g)
                    cn = [nd for nd in gcfg.nodes if nd.ast is not None and any(y is c for y in ast.walk(nd.ast))]

                    def is_w(nd):
                        a = nd.ast
                        return nd.kind == "stmt" and isinstance(a, ast.Assign) and any(self_attr(t, ast.Store) for t in a.targets)
                    if not cn or gcfg.find_path(gcfg.entry, lambda nd: nd.id == cn[0].id, kinds=("n",), blocked=is_w) is not None:
                        helper_ok = False
                if not helper_ok:
                    bad_reader = (f, x)
                    break
            ok = bad_reader is None
            out.append(inst("EVAL-FLAG", HOLDS if ok else VIOLATION, cls, key,
                            "every evaluation function that reads the flag assigns it first (itself, or the generator it iterates, or its callers)" if ok else
                            f"{why_b}; and `{bad_reader[0].short}` (line {bad_reader[1].lineno}) reads the flag without it having been assigned in "
                            f"this evaluation, and the per-evaluation reset does not assign it either: what an abandoned (or simply an earlier) "
                            f"evaluation left in it decides what this one does", line=fld.lineno))
    if n == 0:
        raise AnalysisError("no self-read evaluation flag found")
    return out


# ---------------------------------------------------------------------------------- CACHED-POSITION-RESET
def rule_cached_position_reset(db: ProgramDB) -> List[Instance]:
    """A method whose result is memoised per node (functools.lru_cache) and depends on WHERE the node sits (it reads
    `self._parent_`) is only valid for the tree it was first called in.  The tree around a node changes between evaluations
    (a sub-query evaluated on its own and then nested, a rule tree that gets another branch), so the memo has to be dropped
    with the per-evaluation state."""
    out = []
    se = db.cls("SymbolicExpression")
    names: Dict[str, List[FuncInfo]] = {}
    for c in [se] + se.all_subclasses():
        for m in c.methods.values():
            if m.cls is not c or not any("lru_cache" in d or d.endswith("cache") for d in m.decorators):
                continue
            if any(isinstance(x, ast.Attribute) and x.attr == "_parent_" and isinstance(x.value, ast.Name) and x.value.id == "self"
                   for x in own_nodes(m.node)):
                names.setdefault(m.name, []).append(m)
    if not names:
        raise AnalysisError("no memoised method that depends on the position of the node in the tree found")
    resets = [m for c in [se] + se.all_subclasses() for n, m in c.methods.items() if n == "_reset_only_my_cache_" and m.cls is c]
    root_reset = se.methods.get("_reset_only_my_cache_")
    for name, impls in sorted(names.items()):
        covered: Set[str] = set()       # classes whose implementation of `name` the reset clears the memo of

        def cover(receiver: ast.AST) -> None:
            """`type(self).name` / `self.name` dispatch on the node being reset: whatever class it is, its own implementation
            is cleared.  `SomeClass.name` clears the memo of the one implementation SomeClass resolves to."""
            r = unparse(receiver)
            if r in ("type(self)", "self.__class__", "self"):
                covered.update(m.cls.name for m in impls)
            elif isinstance(receiver, ast.Name) and db.class_by_name.get(receiver.id):
                res = db.cls(receiver.id).methods.get(name)
                if res is not None:
                    covered.add(res.cls.name)
        clearing_calls: List[ast.Call] = []
        handle_names: Set[str] = set()
        for r in ([root_reset] if root_reset else []):
            handles = set()
            for x in own_nodes(r.node):
                if isinstance(x, ast.Assign) and len(x.targets) == 1 and isinstance(x.targets[0], ast.Name) and isinstance(x.value, ast.Call) \
                        and dotted(x.value.func) == "getattr" and len(x.value.args) >= 2 and isinstance(x.value.args[1], ast.Constant) \
                        and x.value.args[1].value == "cache_clear" and isinstance(x.value.args[0], ast.Attribute) and x.value.args[0].attr == name:
                    handles.add((x.targets[0].id, x.value.args[0].value))
            for x in own_nodes(r.node):
                if isinstance(x, ast.Call):
                    if isinstance(x.func, ast.Attribute) and x.func.attr == "cache_clear" and isinstance(x.func.value, ast.Attribute) \
                            and x.func.value.attr == name:
                        cover(x.func.value.value)
                        clearing_calls.append(x)
                    if isinstance(x.func, ast.Name):
                        for h, recv in handles:
                            if h == x.func.id:
                                cover(recv)
                                clearing_calls.append(x)
                                handle_names.add(h)
        missing = sorted({m.cls.name for m in impls} - covered)
        cleared = not missing
        if cleared and root_reset is not None:
            # the clear is on every path through the reset (each node clears for its own class; a clear at the root of the reset only
            # clears the memo of the root's class).  The one guard accepted is `handle is not None` of the getattr default.
            cfg = CFG(root_reset)
            ids = {id(c) for c in clearing_calls}

            def clears(nd):
                return nd.ast is not None and nd.kind == "stmt" and any(id(c) in ids for c in ast.walk(nd.ast))

            def edge_ok(e):
                src = cfg.nodes[e.src]
                if src.kind == "test" and e.label == "F" and isinstance(getattr(src.stmt, "test", None), ast.Compare):
                    t = src.stmt.test
                    if isinstance(t.left, ast.Name) and t.left.id in handle_names and isinstance(t.ops[0], ast.IsNot):
                        return False
                return True
            p = cfg.find_path(cfg.entry, lambda nd: nd.id == cfg.exit, kinds=("n",), blocked=clears, edge_ok=edge_ok)
            if p is not None:
                out.append(inst("CACHED-POSITION-RESET", VIOLATION, root_reset, f"{name}[memo dropped by the reset]",
                                f"the reset drops the memo of `{name}` on some paths only ({cfg.describe_path(p)}): each class has a memo of its "
                                f"own, so every node that is reset has to clear the one of its class", line=root_reset.lineno))
                continue
        out.append(inst("CACHED-POSITION-RESET", HOLDS if cleared else VIOLATION, impls[0], f"{name}[memo dropped by the reset]",
                        f"{len(impls)} memoised implementation(s) read self._parent_; SymbolicExpression._reset_only_my_cache_ drops the memo of the "
                        f"implementation of the node being reset" if cleared else
                        f"`{name}` is memoised with lru_cache and reads self._parent_ in {len(impls)} implementation(s), and the reset does not drop the "
                        f"memo of the implementation in {', '.join(missing)} (each override has a memo of its own): "
                        f"the duplicate-suppression keys computed for the tree of the first evaluation are reused after the node got another "
                        f"parent (a sub-query evaluated alone and then nested) or the tree another branch, and rows are lost or duplicated"))
    return out


# ---------------------------------------------------------------------------------- RESET-REACHES-EVALUATED
NOT_RESET_BY_DESIGN = {
    ("Variable", "_domain_source_"): "a domain given as a sub-query is evaluated once, lazily, and memoised across evaluations (the property "
                                     "names the memo as persistent); resetting the sub-query while its generator is suspended would corrupt it",
}


def rule_reset_reaches_evaluated(db: ProgramDB) -> List[Instance]:
    """The per-evaluation reset and the cache invalidation walk the node graph (`_children_`).  Every sub-expression a node
    EVALUATES therefore has to be linked below it in that graph when the node is built (`_update_children_` /
    `_update_child_`), otherwise the state that evaluating it leaves behind (duplicate-suppression sets of an or_ inside a
    sub-query, result caches) is never reset: an expression that is only selected, not part of the conditions."""
    from ..evalsites import site_model
    out = []
    model = site_model(db)
    se = db.cls("SymbolicExpression")
    per_class: Dict[str, Set[str]] = {}
    for s in model.sites:
        if s.fn.cls is None or not s.fn.cls.is_subclass_of(se):
            continue
        for o in s.origins:
            if o.startswith("self."):
                fname = o[5:].split("[")[0].split(".")[0]
                owner = None
                for k in s.fn.cls.mro:
                    if any(f.name == fname for f in k.own_fields):
                        owner = k
                if owner is not None:
                    per_class.setdefault(owner.name, set()).add(fname)
    if not per_class:
        raise AnalysisError("no evaluated field found")

    def linked(cls: ClassInfo, fname: str) -> bool:
        for k in [cls] + cls.all_subclasses() + list(cls.mro):
            for m in k.methods.values():
                for c in own_calls(m):
                    a = call_attr(c)
                    if a in ("_update_children_", "_update_child_", "_replace_expression_with_"):
                        # _replace_expression_with_: the expression takes the node's own place in the graph
                        args = list(c.args) + [kw.value for kw in c.keywords]
                        if not args and a == "_update_child_" and fname == "_child_":
                            return True
                        for x in args:
                            if any(isinstance(y, ast.Attribute) and y.attr == fname and isinstance(y.value, ast.Name) and y.value.id == "self"
                                   for y in ast.walk(x)):
                                return True
        return False
    n = 0
    fresh = all(i.verdict == HOLDS for i in rule_query_fresh_state(db))
    for cname, fields in sorted(per_class.items()):
        cls = db.cls(cname)
        for fname in sorted(fields):
            # alias properties (ForAll.variable -> left) are resolved by the site model already
            n += 1
            if (cname, fname) in NOT_RESET_BY_DESIGN:
                out.append(inst("RESET-REACHES-EVALUATED", INFO, cls, f"{cname}.{fname}[linked below the node]",
                                f"frozen exception: {NOT_RESET_BY_DESIGN[(cname, fname)]}"))
                continue
            ok = linked(cls, fname)
            if not ok and fresh:
                # not linked, but what needs resetting in such an expression is duplicate-suppression state, which only conditions
                # carry, and a condition inside a value expression is always below a quantified sub-query: that resets the state
                # below itself at the start of each of its evaluations (QUERY-FRESH-STATE, decided above on the current tree)
                out.append(inst("RESET-REACHES-EVALUATED", HOLDS, cls, f"{cname}.{fname}[linked below the node]",
                                "not linked below the node; the duplicate-suppression state inside it sits below a quantified sub-query, and every evaluation "
                                "of a quantifier resets the state below it first (QUERY-FRESH-STATE holds)"))
                out.append(inst("RESET-REACHES-EVALUATED", INFO, cls, f"{cname}.{fname}[reached by the cache invalidation]",
                                "the invalidation of result caches after an abandoned evaluation does not reach it either; no failing input is known "
                                "(probes: notes/probes/r4_selected_subquery_abandoned.py)"))
                continue
            out.append(inst("RESET-REACHES-EVALUATED", HOLDS if ok else VIOLATION, cls, f"{cname}.{fname}[linked below the node]",
                            "the evaluated sub-expression is linked below the node when it is built, so the reset and the cache invalidation reach it" if ok else
                            f"`{cname}` evaluates `self.{fname}` but never links it below itself in the node graph: an expression that occurs there only "
                            f"(a selected attribute of a sub-query, a selected concatenation) is not reached by _reset_cache_ / "
                            f"_clear_result_caches_, and the duplicate-suppression state of an or_ inside it survives into the next evaluation"))
    return out


# ---------------------------------------------------------------------------------- QUERY-FRESH-STATE
def rule_query_fresh_state(db: ProgramDB) -> List[Instance]:
    """The duplicate-suppression state below a query belongs to ONE evaluation of that query.  The reset at the end of
    evaluate() only walks the graph below the outermost query: a nested query is evaluated once per binding of the
    enclosing one, and a query that is only selected, or is the domain of a variable, is not below the enclosing query at
    all.  Every evaluation of a quantifier therefore resets the state below it before it evaluates its descriptor."""
    out = []
    rq = db.cls("ResultQuantifier")
    n = 0
    for c in sorted(rq.all_subclasses(), key=lambda k: k.qualname):
        for m in c.methods.values():
            if m.cls is not c or not is_eval_method_name(m.name):
                continue
            cfg = CFG(m)

            def evaluates_child(nd):
                return nd.ast is not None and nd.kind in ("stmt", "for", "test", "return") and any(
                    isinstance(x, ast.Call) and is_eval_method_name(call_attr(x) or "") and unparse(x.func.value) == "self._child_"
                    for x in ast.walk(nd.ast if nd.kind != "for" else nd.stmt.iter))

            def resets(nd):
                return nd.ast is not None and nd.kind == "stmt" and any(
                    isinstance(x, ast.Call) and call_attr(x) == "_reset_cache_" and unparse(x.func.value) in ("self._child_", "self")
                    for x in ast.walk(nd.ast))
            sites = [nd for nd in cfg.nodes if evaluates_child(nd)]
            if not sites:
                continue
            n += 1
            bad = None
            for s_ in sites:
                p = cfg.find_path(cfg.entry, lambda nd, s_=s_: nd.id == s_.id, kinds=("n",), blocked=resets)
                if p is not None:
                    bad = (s_, p)
            out.append(inst("QUERY-FRESH-STATE", VIOLATION if bad else HOLDS, m, f"{m.short}[state below the query reset before it is evaluated]",
                            f"`{bad[0].src()[:60]}` is reached without the state below the query having been reset: the second evaluation of a nested "
                            f"query (once per row of the enclosing one), or the evaluation of a query that another, abandoned evaluation pulled from as a "
                            f"domain, suppresses the right-branch rows of an or_ inside it as duplicates of the previous evaluation "
                            f"(concatenate(an(entity(b, or_(b.kind == 'k', b.name == 'c'))).items) is complete in the first row only)" if bad else
                            "the descriptor is evaluated only after `_reset_cache_()` below the query", line=bad[0].lineno if bad else m.lineno))
    if n < 2:
        raise AnalysisError(f"only {n} quantifier evaluation method(s) that evaluate their descriptor found (an, the)")
    return out


# ---------------------------------------------------------------------------------- SLOT-STORE-LINKED
def rule_slot_store_linked(db: ProgramDB) -> List[Instance]:
    """A node is below another in two ways: in an operand / child slot (evaluation follows the slots) and in the graph (the
    per-evaluation reset and the invalidation of result caches follow the graph).  The constructors make both; code that puts a
    node into ANOTHER node's slot afterwards (a refinement re-linked under its parent operator, a predicate attached implicitly to
    the query whose block is open) has to make both as well: every such store is accompanied, in the same function, by the graph
    link - `<child>._parent_ = <owner>` or `<owner>._update_child_()` / `_update_children_(…)`.  Otherwise the stored node is
    evaluated but never reset: a variable without a domain inside it keeps the registry of its first evaluation."""
    out = []
    se = db.cls("SymbolicExpression")
    slots = {"_child_", "left", "right"}
    n = 0
    for fn in sorted(db.all_functions(), key=lambda f: f.qualname):
        if fn.module not in ("rule", "predicate", "entity", "symbolic", "conclusion", "conclusion_selector"):
            continue
        for a in own_nodes(fn.node):
            if not isinstance(a, ast.Assign):
                continue
            for t in a.targets:
                if not (isinstance(t, ast.Attribute) and t.attr in slots) or (isinstance(t.value, ast.Name) and t.value.id == "self"):
                    continue
                if fn.name == "_parent_" or (fn.cls is not None and fn.name in ("__post_init__", "__init__")):
                    continue          # the parent setter is the link itself (it fills the slot of the new parent)
                owner, child = unparse(t.value), a.value
                n += 1
                linked = False
                for x in own_nodes(fn.node):
                    if isinstance(x, ast.Call) and call_attr(x) in ("_update_child_", "_update_children_") and unparse(x.func.value) == owner:
                        linked = True
                    if isinstance(x, ast.Assign) and any(isinstance(tt, ast.Attribute) and tt.attr == "_parent_" for tt in x.targets):
                        tgt_child = unparse([tt for tt in x.targets if isinstance(tt, ast.Attribute) and tt.attr == "_parent_"][0].value)
                        if isinstance(child, ast.Name) and tgt_child == child.id and unparse(x.value) == owner:
                            linked = True
                if linked:
                    # ... on every path from the store to the end of the function, not only somewhere in it
                    def is_link(nd, owner=owner, child=child):
                        for x in ([nd.ast] if nd.ast is not None else []):
                            scan = x.test if isinstance(x, (ast.If, ast.While)) else x.iter if isinstance(x, ast.For) else x
                            for y in ast.walk(scan):
                                if isinstance(y, ast.Call) and call_attr(y) in ("_update_child_", "_update_children_") and unparse(y.func.value) == owner:
                                    return True
                                if isinstance(y, ast.Assign) and any(isinstance(tt, ast.Attribute) and tt.attr == "_parent_" and isinstance(child, ast.Name)
                                                                     and unparse(tt.value) == child.id for tt in y.targets) and unparse(y.value) == owner:
                                    return True
                        return False
                    cfg = CFG(fn)
                    starts = cfg.node_of_stmt(a)
                    if not starts:
                        raise AnalysisError(f"{fn.qualname}: the store `{unparse(a)[:50]}` is not a node of the flow graph")
                    for sn in starts:
                        if is_link(sn):
                            continue
                        pth = cfg.find_path(sn.id, lambda nd: nd.id == cfg.exit, kinds=("n",), blocked=is_link)
                        before = cfg.find_path(cfg.entry, lambda nd, sn=sn: nd.id == sn.id, kinds=("n",), blocked=is_link)
                        if pth is not None and (before is not None or sn.id == cfg.entry):
                            linked = False          # a path through the store on which the link is made neither before nor after it
                out.append(inst("SLOT-STORE-LINKED", HOLDS if linked else VIOLATION, fn, f"{fn.short}[{unparse(t)} = {unparse(child)[:30]}]",
                                "the stored node is linked below its new owner in the graph as well, on every path from the store to the end of the function" if linked else
                                f"`{unparse(a)[:70]}` puts a node into the slot of `{owner}` without linking it below `{owner}` in the graph: it is evaluated, but the per-evaluation "
                                f"reset and the invalidation of result caches never reach it - a variable without a domain inside it (SameN(other=let(A)) attached inside "
                                f"`with query:`) keeps the instances of its first evaluation", line=a.lineno))
    if n < 3:
        raise AnalysisError(f"only {n} stores into another node's slot found")
    return out



# ---------------------------------------------------------------------------------- GRAPH-TRAVERSAL-ALL
def rule_graph_traversal_all(db: ProgramDB) -> List[Instance]:
    """The per-evaluation reset, the invalidation of result caches and `_all_variable_instances_` walk the expression graph through the
    node wrapper's `children` / `descendants`.  A node can have several parents (a condition object used by two queries, a variable used in
    several conditions); the walk from EACH of them has to reach it.  Rule: `children`, `descendants`, `parents`, `ancestors` hand out all
    successors / predecessors of the node - no filter (by primary parent or otherwise) between the graph and the caller."""
    out = []
    cls = db.cls("RWXNode")
    want = {"children": ("successors",), "descendants": ("descendants",), "parents": ("predecessors",), "ancestors": ("ancestors",)}
    n = 0
    for name, calls in sorted(want.items()):
        m = cls.methods.get(name)
        if m is None:
            raise AnalysisError(f"RWXNode.{name} not found")
        n += 1
        rets = [r for r in own_nodes(m.node) if isinstance(r, ast.Return) and r.value is not None]
        src_ok = any(isinstance(c, ast.Call) and (call_attr(c) in calls or (dotted(c.func) or "").split(".")[-1] in calls) for c in own_nodes(m.node))
        filt = None
        for x in own_nodes(m.node):
            if isinstance(x, (ast.ListComp, ast.GeneratorExp, ast.SetComp)) and any(g.ifs for g in x.generators):
                filt = x
            if isinstance(x, ast.Call) and isinstance(x.func, ast.Name) and x.func.id == "filter":
                filt = x
            if isinstance(x, (ast.If, ast.IfExp)):
                filt = x
        ok = src_ok and filt is None and len(rets) >= 1
        out.append(inst("GRAPH-TRAVERSAL-ALL", HOLDS if ok else VIOLATION, m, f"RWXNode.{name}[all of them]",
                        f"hands out what the graph's `{calls[0]}` returns, unfiltered" if ok else
                        (f"`{unparse(filt)[:90]}` keeps some of the {name} only: " if filt is not None else f"does not read `{calls[0]}` of the graph: ")
                        + "a node with two parents (a condition shared by two queries) is no longer reached from one of them - the per-evaluation reset of that query "
                          "skips it, its duplicate-suppression state survives, and the second evaluation of the query loses the rows recorded in the first",
                        line=(filt or m.node).lineno))
    return out
