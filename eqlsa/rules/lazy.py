"""
C07: laziness is preserved along every path from the user's domain to the user's next(): nothing on that path
materialises a stream.

GEN-ENTRY     evaluate() of `an` is a generator; construction-time code iterates no domain
LAZY-TAINT    no eager consumer is applied to an evaluation stream or to a lazily supplied domain
MEMO-ON-PULL  the lazily consumed domain is read only inside HashedIterable, and every pulled element is memoised
              before it is handed out
"""
from __future__ import annotations

import ast
from typing import Dict, List, Optional, Set, Tuple

from ..db import ProgramDB, FuncInfo, ClassInfo, AnalysisError, unparse, own_nodes, dotted
from ..cfg import CFG
from ..facts import own_calls, call_attr, call_name, local_defs, resolve_call_target
from ..framework import inst, HOLDS, VIOLATION, UNDECIDED, INFO, Instance
from ..evalsites import site_model, is_eval_name, SiteModel

EAGER_CALLS = {"list", "tuple", "set", "frozenset", "sorted", "dict", "len", "sum", "min", "max", "any", "all",
               "reversed", "deque", "Counter"}
SCAN_MODULES = ("symbolic", "entity", "predicate", "hashed_data", "conclusion", "conclusion_selector", "cache_data", "rule")
UTILS_FUNCS = ("generate_combinations", "lazy_iterate_dicts")

DRAIN_EXCEPTIONS = {
    "ForAll._evaluate__": "must see every binding of the condition for one universal value, and every universal value",
    "Concatenate._evaluate__": "aggregation is its meaning",
    "The._evaluate_": "must look for a second solution",
}


_SP_CACHE: Dict[str, Dict[str, Set[str]]] = {}


def stream_params(db: ProgramDB, model: SiteModel) -> Dict[str, Set[str]]:
    """callee qualname -> names of parameters that some caller fills with (a container of) evaluation streams."""
    k = db.digest()
    if k in _SP_CACHE:
        return _SP_CACHE[k]
    res: Dict[str, Set[str]] = {}
    _SP_CACHE[k] = res
    from ..facts import fn_params, bind_args
    for _round in range(2):
        for fn in db.all_functions():
            mine = res.get(fn.qualname, set())
            for c in own_calls(fn):
                t = None
                if isinstance(c.func, ast.Attribute) and isinstance(c.func.value, ast.Name) and c.func.value.id == "self" and fn.cls:
                    t = fn.cls.lookup(c.func.attr)
                else:
                    r = resolve_call_target(db, fn, c)
                    t = r if isinstance(r, FuncInfo) else None
                if t is None or is_eval_name(t.name):
                    continue
                try:
                    amap = bind_args(fn_params(t), c)
                except AnalysisError:
                    continue
                for p, a in amap.items():
                    if model._is_stream_expr(fn, a) or (isinstance(a, ast.Name) and a.id in mine):
                        res.setdefault(t.qualname, set()).add(p)
    return res


class Taint:
    """Which expressions of a function denote a lazily produced stream (an evaluation stream, or the user's domain)."""

    def __init__(self, db: ProgramDB, model: SiteModel, fn: FuncInfo):
        self.db, self.model, self.fn = db, model, fn
        self.domain_names: Set[str] = set()
        owner = fn
        self.cls = fn.cls
        for p in fn.params:
            if p == "domain":
                self.domain_names.add(p)
        # parameters that callers fill with streams (e.g. the dict of generators handed to generate_combinations)
        self.domain_names |= stream_params(db, model).get(fn.qualname, set())
        # the lazy combinators of utils take (dicts of) streams by contract, whether or not the package calls them today
        if fn.module == "utils" and fn.name in UTILS_FUNCS and fn.parent is None:
            self.domain_names |= set(fn.params)
        # free variables of a nested function: what is tainted in the enclosing function is tainted here
        if fn.parent is not None:
            own = set(fn.params) | set(local_defs(fn))
            self.domain_names |= {n for n in Taint(db, model, fn.parent).domain_names if n not in own}
        defs = local_defs(fn)
        changed = True
        while changed:
            changed = False
            for name, vals in defs.items():
                if name in self.domain_names:
                    continue
                for v in vals:
                    if isinstance(v, ast.AST) and self._is_domain_expr(v):
                        self.domain_names.add(name)
                        changed = True

    def _is_domain_expr(self, e: ast.AST) -> bool:
        if isinstance(e, ast.Name):
            return e.id in self.domain_names
        if isinstance(e, ast.Attribute):
            if e.attr == "domain":
                return True
            if e.attr == "_domain_":
                return True       # the memoising wrapper of a variable's domain, whoever holds the variable
            if isinstance(e.value, ast.Name) and e.value.id == "self":
                if e.attr == "iterable" and self.cls is not None and self.cls.name == "HashedIterable":
                    return True
            return False
        if isinstance(e, ast.Subscript):
            return self._is_domain_expr(e.value)         # one of the streams held by a tainted container
        if isinstance(e, ast.BoolOp):
            return any(self._is_domain_expr(v) for v in e.values)
        if isinstance(e, ast.IfExp):
            return self._is_domain_expr(e.body) or self._is_domain_expr(e.orelse)
        if isinstance(e, ast.Call):
            d = dotted(e.func) or ""
            if isinstance(e.func, ast.Attribute) and e.func.attr in ("values", "items") and not e.args:
                return self._is_domain_expr(e.func.value)      # the streams held by a tainted container
            if d.split(".")[-1] in ("map", "filter", "iter", "enumerate", "zip", "chain", "islice", "takewhile", "dropwhile") and e.args:
                first_is_stream = d.split(".")[-1] in ("iter", "enumerate", "zip", "chain", "islice")
                return any(self._is_domain_expr(a) for a in e.args[1:] + ([e.args[0]] if first_is_stream else []))
        if isinstance(e, ast.GeneratorExp):
            return any(self._is_domain_expr(g.iter) for g in e.generators)
        if isinstance(e, (ast.ListComp, ast.DictComp, ast.SetComp)):
            # a container built from the elements of a tainted container (e.g. [iter(g) for g in streams.values()])
            for g in e.generators:
                it = g.iter
                if isinstance(it, ast.Call) and isinstance(it.func, ast.Attribute) and it.func.attr in ("values", "items"):
                    it = it.func.value
                if self._is_domain_expr(it):
                    return True
        return False

    def is_stream(self, e: ast.AST) -> Optional[str]:
        if self.model._is_stream_expr(self.fn, e):
            return "an evaluation stream"
        if self._is_domain_expr(e):
            return "the lazily supplied domain"
        return None


def eager_uses(db: ProgramDB, model: SiteModel, fn: FuncInfo) -> List[Tuple[ast.AST, str]]:
    """Constructs of fn that materialise a stream."""
    t = Taint(db, model, fn)
    bad: List[Tuple[ast.AST, str]] = []
    for n in own_nodes(fn.node):
        if isinstance(n, ast.Call):
            d = dotted(n.func) or ""
            last = d.split(".")[-1]
            if last in EAGER_CALLS and d in (last, f"collections.{last}"):
                for a in n.args:
                    target = a.value if isinstance(a, ast.Starred) else a
                    w = t.is_stream(target)
                    if w:
                        bad.append((n, f"`{unparse(n)[:60]}` consumes {w} completely"))
            elif last == "product" and d.endswith("product"):
                for a in n.args:
                    target = a.value if isinstance(a, ast.Starred) else a
                    w = t.is_stream(target)
                    if w:
                        bad.append((n, f"`{unparse(n)[:60]}`: itertools.product drains every argument ({w}) before its "
                                       f"first combination"))
            elif isinstance(n.func, ast.Attribute) and n.func.attr in ("extend",) and n.args:
                w = t.is_stream(n.args[0])
                if w:
                    bad.append((n, f"`{unparse(n)[:60]}` consumes {w} completely"))
            else:
                for a in n.args:
                    if isinstance(a, ast.Starred):
                        if isinstance(a.value, ast.Call) and isinstance(a.value.func, ast.Attribute) and a.value.func.attr in ("values", "items", "keys") \
                                and not a.value.args:
                            continue      # unpacks a dict view (a container OF streams), which pulls nothing from the streams
                        w = t.is_stream(a.value)
                        if w and last not in ("generate_combinations",):
                            bad.append((n, f"`{unparse(n)[:60]}` unpacks {w} (drains it)"))
        elif isinstance(n, (ast.ListComp, ast.SetComp, ast.DictComp)):
            for g in n.generators:
                if isinstance(g.iter, ast.Call) and isinstance(g.iter.func, ast.Attribute) and g.iter.func.attr in ("values", "items", "keys"):
                    continue      # iterates a dict *of* streams, not a stream
                w = t.is_stream(g.iter)
                if w:
                    bad.append((n, f"comprehension `{unparse(n)[:60]}` consumes {w} completely"))
        elif isinstance(n, ast.Compare) and any(isinstance(o, (ast.In, ast.NotIn)) for o in n.ops):
            for c in n.comparators:
                w = t.is_stream(c)
                if w and not (isinstance(c, ast.Attribute) and c.attr == "_domain_"):
                    bad.append((n, f"membership test `{unparse(n)[:60]}` iterates {w}"))
        elif isinstance(n, (ast.For, ast.AsyncFor)):
            w = t.is_stream(n.iter)
            if w:
                # a loop whose body can hand a row out before the next pull is streaming
                hands_out = any(isinstance(x, (ast.Yield, ast.YieldFrom, ast.Return, ast.Break))
                                for s in n.body for x in [s] + list(own_nodes(s)))
                if not hands_out:
                    bad.append((n, f"`for {unparse(n.target)} in {unparse(n.iter)[:40]}` drains {w}: nothing is handed out "
                                   f"before the loop finishes"))
    return bad


def rule_lazy_taint(db: ProgramDB) -> List[Instance]:
    out = []
    model = site_model(db)
    scanned = 0
    for fn in sorted(db.all_functions(), key=lambda f: f.qualname):
        if fn.module == "utils":
            if fn.name not in UTILS_FUNCS and not (fn.parent is not None and fn.parent.name in UTILS_FUNCS):
                continue
        elif fn.module not in SCAN_MODULES:
            continue
        uses = eager_uses(db, model, fn)
        t = Taint(db, model, fn)
        handles = bool(t.domain_names) or any(is_eval_name(call_attr(c)) for c in own_calls(fn)) or \
            any(model._is_stream_expr(fn, n) for n in own_nodes(fn.node) if isinstance(n, (ast.For,)) for n in [n.iter])
        if not handles and not uses:
            continue
        scanned += 1
        if fn.short in DRAIN_EXCEPTIONS:
            out.append(inst("LAZY-TAINT", INFO, fn, fn.short,
                            f"frozen exception ({len(uses)} eager construct(s)): {DRAIN_EXCEPTIONS[fn.short]}"))
            continue
        if uses:
            for node, why in uses:
                out.append(inst("LAZY-TAINT", VIOLATION, fn, f"{fn.short}[{unparse(node)[:50]}]",
                                why + ": the first result can only be delivered after the whole stream was produced",
                                line=node.lineno))
        else:
            out.append(inst("LAZY-TAINT", HOLDS, fn, fn.short, "handles streams / the domain and applies no eager consumer"))
    # the dead-but-imported lock-step helper must not be what evaluation uses (PRODUCT, C02) - informational here
    # built-in positive example
    example = ("from .symbolic import SymbolicExpression\n"
               "class X(SymbolicExpression):\n"
               "    def _evaluate__(self, sources=None, yield_when_false=False):\n"
               "        rows = list(self._child_._evaluate__(sources))\n"
               "        for r in rows:\n"
               "            yield r\n")
    db2 = ProgramDB(repo=db.repo, overrides=dict(db.source_overrides, __eqlsa_example__=example))
    f = db2.fn("__eqlsa_example__:X._evaluate__")
    if not eager_uses(db2, site_model(db2), f):
        out.append(inst("LAZY-TAINT", UNDECIDED, "", "positive-example", "the rule did not fire on its built-in positive example"))
    return out


CONSTRUCTION_FUNCS = [
    "entity:an", "entity:the", "entity:infer", "entity:select_one_or_select_many_or_infer", "entity:entity",
    "entity:set_of", "entity:_extract_variables_and_expression", "entity:let",
    "symbolic:Variable.__post_init__", "symbolic:Variable._validate_inputs_and_fill_missing_ones_",
    "symbolic:Variable._update_domain_", "symbolic:Literal.__init__",
    "hashed_data:HashedIterable.__post_init__", "hashed_data:HashedIterable.set_iterable",
    "predicate:symbol.<locals>.symbolic_new", "predicate:symbol.<locals>.hybrid_new",
    "predicate:extract_selected_variable_and_expression", "predicate:update_domain_and_kwargs_from_args",
]


def rule_gen_entry(db: ProgramDB) -> List[Instance]:
    out = []
    an = db.cls("An")
    ev = an.methods.get("evaluate")
    if ev is None:
        raise AnalysisError("An.evaluate not found")
    lazy_return = False
    if not ev.is_generator:
        for r in [n for n in own_nodes(ev.node) if isinstance(n, ast.Return) and n.value is not None]:
            v = r.value
            if isinstance(v, ast.GeneratorExp) or (isinstance(v, ast.Call) and (dotted(v.func) in ("map", "filter", "iter")
                                                                              or is_eval_name(call_attr(v)))):
                lazy_return = True
    ok = ev.is_generator or lazy_return
    out.append(inst("GEN-ENTRY", HOLDS if ok else VIOLATION, ev, "An.evaluate[lazy]",
                    "evaluate() is a generator function: calling it runs nothing until the first result is requested" if ok else
                    "evaluate() is not a generator and does not return a lazy iterator: it does its work when called"))
    model = site_model(db)
    for q in CONSTRUCTION_FUNCS:
        fn = db.fn(q, required=False)
        if fn is None:
            out.append(inst("GEN-ENTRY", INFO, "", q, "construction-time function no longer exists"))
            continue
        t = Taint(db, model, fn)
        bad = []
        for n in own_nodes(fn.node):
            # iteration of the domain outside a generator expression / lambda
            if isinstance(n, (ast.For, ast.AsyncFor)) and t._is_domain_expr(n.iter):
                bad.append((n, f"loops over the supplied domain"))
            elif isinstance(n, (ast.ListComp, ast.SetComp, ast.DictComp)) and any(t._is_domain_expr(g.iter) for g in n.generators):
                bad.append((n, "comprehension over the supplied domain"))
            elif isinstance(n, ast.Call):
                d = dotted(n.func) or ""
                if d in EAGER_CALLS | {"next"}:
                    for a in n.args:
                        x = a
                        while isinstance(x, ast.Call) and dotted(x.func) == "iter" and x.args:
                            x = x.args[0]
                        if t._is_domain_expr(x):
                            bad.append((n, f"`{unparse(n)[:50]}` pulls from the supplied domain"))
        if bad:
            for n, why in bad:
                out.append(inst("GEN-ENTRY", VIOLATION, fn, f"{fn.short}[{unparse(n)[:40]}]",
                                f"{why} when the variable / query is constructed: a one-shot domain is consumed before any "
                                f"result is requested", line=n.lineno))
        else:
            out.append(inst("GEN-ENTRY", HOLDS, fn, fn.short, "construction-time code: does not iterate the supplied domain"))
    return out


def rule_memo_on_pull(db: ProgramDB) -> List[Instance]:
    out = []
    hi = db.cls("HashedIterable")
    # who may read the raw iterable
    for fn in db.all_functions():
        for n in own_nodes(fn.node):
            if isinstance(n, ast.Attribute) and n.attr == "iterable" and isinstance(n.ctx, ast.Load):
                inside = fn.cls is hi and isinstance(n.value, ast.Name) and n.value.id == "self"
                if not inside:
                    out.append(inst("MEMO-ON-PULL", VIOLATION, fn, f"{fn.short}[reads .iterable]",
                                    f"`{unparse(n)}` reads the raw lazily-consumed domain outside HashedIterable: elements "
                                    f"pulled here are lost for later evaluations", line=n.lineno))
    loops = 0
    for m in hi.methods.values():
        pull_loops = [n for n in own_nodes(m.node) if isinstance(n, ast.For) and isinstance(n.iter, ast.Attribute) and n.iter.attr == "iterable"
                      and isinstance(n.iter.value, ast.Name) and n.iter.value.id == "self"]
        if not pull_loops:
            continue
        cfg = CFG(m)
        for n in pull_loops:
            loops += 1
            tnames = {x.id for x in ast.walk(n.target) if isinstance(x, ast.Name)}
            head = next(nd for nd in cfg.nodes if nd.kind == "for" and nd.stmt is n)

            def stores(nd, tnames=tnames) -> bool:
                s_ = nd.ast
                if nd.kind != "stmt" or s_ is None:
                    return False
                if isinstance(s_, ast.Assign) and any(isinstance(t, ast.Subscript) and isinstance(t.value, ast.Attribute) and t.value.attr == "values"
                                                      for t in s_.targets) and {x.id for x in ast.walk(s_.value) if isinstance(x, ast.Name)} & tnames:
                    return True
                if isinstance(s_, ast.Expr) and isinstance(s_.value, ast.Call):
                    c = s_.value
                    if call_attr(c) == "add" and isinstance(c.func.value, ast.Name) and c.func.value.id == "self":
                        return True
                    if call_attr(c) in ("setdefault", "update", "__setitem__") and isinstance(c.func.value, ast.Attribute) and c.func.value.attr == "values" \
                            and {x.id for a in c.args for x in ast.walk(a) if isinstance(x, ast.Name)} & tnames:
                        return True
                return False

            def edge_ok(e, tnames=tnames) -> bool:
                """the branch on which the element is known to be memoised already needs no store"""
                if e.kind != "n":
                    return False
                src = cfg.nodes[e.src]
                if src.kind == "test" and isinstance(getattr(src.stmt, "test", None), ast.Compare):
                    t = src.stmt.test
                    if len(t.ops) == 1 and isinstance(t.ops[0], (ast.In, ast.NotIn)) and unparse(t.comparators[0]) in ("self.values", "self.values.keys()") \
                            and {x.id for x in ast.walk(t.left) if isinstance(x, ast.Name)} & tnames:
                        memoised_label = "T" if isinstance(t.ops[0], ast.In) else "F"
                        if e.label == memoised_label:
                            return False
                return True

            def leaves(nd) -> bool:
                return nd.has_yield or nd.kind == "return" or nd.id in (head.id, cfg.exit) or (nd.kind == "stmt" and isinstance(nd.ast, ast.Break))
            bad = None
            for e in cfg.succ[head.id]:
                if e.kind == "n" and e.label == "iter":
                    first = cfg.nodes[e.dst]
                    if stores(first):
                        continue
                    if leaves(first):
                        bad = [e]
                        continue
                    p_ = cfg.find_path(first.id, leaves, kinds=("n",), blocked=stores, edge_ok=edge_ok)
                    if p_ is not None:
                        bad = [e] + p_
            ok = bad is None
            out.append(inst("MEMO-ON-PULL", HOLDS if ok else VIOLATION, m, f"{m.short}[for … in self.iterable]",
                            "every element pulled from the source is stored in `values` before it is handed out" if ok else
                            "an element pulled from the source can be handed out (or skipped) without being stored in "
                            "`values`: later evaluations would not see it, and a one-shot source cannot be pulled again ("
                            + " ".join(cfg.describe_path(bad)[:4]) + ")", line=n.lineno))
    if loops == 0:
        raise AnalysisError("HashedIterable: no loop over self.iterable found")
    # the source is wrapped lazily (a generator expression), once
    for name in ("__post_init__", "set_iterable"):
        m = hi.methods.get(name)
        if m is None:
            continue
        assigns = [n for n in own_nodes(m.node) if isinstance(n, ast.Assign) and any(
            isinstance(t, ast.Attribute) and t.attr == "iterable" for t in n.targets)]
        for a in assigns:
            wrap = _wrapping_of(hi, a.value)
            lazy = wrap is not None
            out.append(inst("MEMO-ON-PULL", HOLDS if lazy else VIOLATION, m, f"{m.short}[wraps the source lazily]",
                            f"`{unparse(a)[:70]}` wraps the source in a lazy iterator" if lazy else
                            f"`{unparse(a)[:70]}` materialises the source", line=a.lineno))
            if wrap is not None:
                filt = _wrapping_filters(wrap)
                out.append(inst("MEMO-ON-PULL", VIOLATION if filt else HOLDS, m, f"{m.short}[every member of the source is wrapped]",
                                f"`{filt}` leaves members of the supplied domain out while wrapping it: a domain member that is None / falsy / of some "
                                f"type silently never ranges over the variable (let(object, domain=[None, 0]) loses None)" if filt else
                                "the wrapping maps every member of the source to one wrapped value", line=a.lineno))
    return out


def _wrapping_of(hi: ClassInfo, v: ast.AST, depth: int = 0):
    """the lazily evaluated expression / generator function that wraps the members of the source, or None when the source is
    materialised.  Follows one level of the class's own helper (a generator method, or one that returns the lazy expression)."""
    if isinstance(v, ast.GeneratorExp):
        return v
    if isinstance(v, ast.Call) and dotted(v.func) in ("map", "iter", "filter"):
        return v
    if depth == 0 and isinstance(v, ast.Call) and isinstance(v.func, ast.Attribute) and isinstance(v.func.value, ast.Name) \
            and v.func.value.id in ("self", "cls", hi.name):
        h = hi.methods.get(v.func.attr)
        if h is not None:
            if h.is_generator:
                return h.node
            rets = [r.value for r in own_nodes(h.node) if isinstance(r, ast.Return) and r.value is not None]
            if len(rets) == 1:
                return _wrapping_of(hi, rets[0], depth + 1)
    return None


def _wrapping_filters(wrap: ast.AST) -> Optional[str]:
    """text of the condition under which a member of the source is NOT wrapped (None when every member is).  Skipping a member
    that is memoised already is not a filter."""
    if isinstance(wrap, ast.GeneratorExp):
        for g in wrap.generators:
            if g.ifs:
                return unparse(g.ifs[0])
        return None
    if isinstance(wrap, ast.Call):
        if dotted(wrap.func) == "filter":
            return unparse(wrap)[:60]
        for a in wrap.args[1:] if dotted(wrap.func) == "map" else []:
            # what the mapping runs over is the source itself, not a selection of it
            inner = _wrapping_filters(a) if isinstance(a, (ast.GeneratorExp, ast.Call)) else None
            if inner:
                return inner
        return None
    if isinstance(wrap, (ast.FunctionDef,)):
        for lp in [x for x in own_nodes(wrap) if isinstance(x, ast.For)]:
            for t in [x for x in ast.walk(lp) if isinstance(x, ast.If)]:
                skips = any(isinstance(z, ast.Continue) for b in t.body for z in ast.walk(b))
                if skips and not ("self.values" in unparse(t.test) or "seen" in unparse(t.test)):
                    return unparse(t.test)
        return None
    return None


def rule_source_not_delegated(db: ProgramDB) -> List[Instance]:
    """The one-shot source of a lazily consumed domain lives as long as the wrapper.  `yield from <source>` would hand the
    source to the consumer of ONE iteration: closing or dropping that iteration (an abandoned result iterator, the(...)
    raising, an exception in user code) closes the source with it, and the members not pulled yet are lost for every later
    evaluation.  The source is therefore pulled element by element (a for loop leaves its iterator open when it is left)."""
    out = []
    hi = db.cls("HashedIterable")
    sample = ast.parse("def f(self):\n    yield from list(self.values.values())\n    yield from self.iterable\n").body[0]

    def delegations(node) -> List[ast.AST]:
        return [y for y in own_nodes(node) if isinstance(y, ast.YieldFrom) and isinstance(y.value, ast.Attribute) and y.value.attr == "iterable"]
    if len(delegations(sample)) != 1:
        raise AnalysisError("SOURCE-NOT-DELEGATED: the built-in positive example is no longer recognised")
    n = 0
    for m in hi.methods.values():
        if m.cls is not hi or not m.is_generator:
            continue
        n += 1
        d = delegations(m.node)
        out.append(inst("SOURCE-NOT-DELEGATED", VIOLATION if d else HOLDS, m, f"{m.short}[the shared source is not delegated to]",
                        f"`{unparse(d[0])}` delegates to the shared source: when this iteration is closed or dropped before the end (an abandoned result "
                        f"iterator, the(...) raising MultipleSolutionFound, an exception in user code) the source is closed with it and every later "
                        f"evaluation ranges over the prefix pulled so far only" if d else
                        "the source is pulled element by element; leaving the iteration leaves the source open", line=d[0].lineno if d else m.lineno))
    if n == 0:
        raise AnalysisError("HashedIterable has no generator method")
    return out


def rule_dup_stable(db: ProgramDB) -> List[Instance]:
    """The first pass over a lazily consumed domain yields what later passes replay from the memo.  The memo is keyed by
    identity, so an object the domain lists twice is replayed once: the pulling loop must therefore not yield an element
    that is already memoised."""
    out = []
    hi = db.cls("HashedIterable")
    n = 0
    for m in hi.methods.values():
        if not m.is_generator:
            continue
        for loop in [x for x in own_nodes(m.node) if isinstance(x, ast.For) and isinstance(x.iter, ast.Attribute)
                     and x.iter.attr == "iterable"]:
            n += 1
            tn = {x.id for x in ast.walk(loop.target) if isinstance(x, ast.Name)}
            # the memo: the field of self the loop stores pulled elements into (self.<memo>[…] = v)
            memos = {unparse(t.value) for x in ast.walk(loop) if isinstance(x, ast.Assign) for t in x.targets
                     if isinstance(t, ast.Subscript) and isinstance(t.value, ast.Attribute) and isinstance(t.value.value, ast.Name)
                     and t.value.value.id == "self"}

            def against_live_memo(x: ast.Compare) -> bool:
                c = x.comparators[0]
                if isinstance(c, ast.Call) and isinstance(c.func, ast.Attribute) and c.func.attr == "keys" and not c.args:
                    c = c.func.value
                # the live memo, not a snapshot taken before the loop: an element listed twice is stored by the first pull and
                # has to be recognised at the second
                return unparse(c) in memos
            guard = None
            for s in loop.body:
                if isinstance(s, ast.If) and any(isinstance(x, ast.Compare) and any(isinstance(o, ast.In) for o in x.ops)
                                                 and against_live_memo(x) for x in ast.walk(s.test)) \
                        and any(isinstance(b, ast.Continue) for b in s.body):
                    guard = s
                    break
                if any(isinstance(x, (ast.Yield, ast.YieldFrom)) for x in ast.walk(s)):
                    break
                if isinstance(s, ast.If) and any(isinstance(x, ast.Compare) and any(isinstance(o, ast.NotIn) for o in x.ops)
                                                 and against_live_memo(x) for x in ast.walk(s.test)) \
                        and any(isinstance(x, ast.Yield) for b in s.body for x in ast.walk(b)):
                    guard = s
                    break
            ok = guard is not None
            out.append(inst("DUP-STABLE", HOLDS if ok else VIOLATION, m, f"{m.short}[element already memoised]",
                            "an element that is already in the memo is not yielded a second time" if ok else
                            "every pulled element is yielded, also one that is already in the memo: a domain that lists the same "
                            "object twice yields it twice on the first evaluation and once (from the memo) on every later one",
                            line=loop.lineno))
    if n == 0:
        raise AnalysisError("HashedIterable: no generator loop over self.iterable")
    return out


def rule_iter_snapshot(db: ProgramDB) -> List[Instance]:
    """The memo of a HashedIterable backs the instance registry; constructing an instance while a registry-backed domain
    is being iterated adds to it.  Iterating the live dict view raises 'dictionary changed size during iteration': the
    replay must iterate a snapshot."""
    out = []
    hi = db.cls("HashedIterable")
    n = 0
    for m in hi.methods.values():
        if not m.is_generator:
            continue
        for x in own_nodes(m.node):
            it = None
            if isinstance(x, ast.YieldFrom):
                it = x.value
            elif isinstance(x, ast.For) and any(isinstance(y, ast.Yield) for y in ast.walk(x)):
                it = x.iter
            if it is None:
                continue
            src = unparse(it)
            if "self.values" not in src:
                continue
            n += 1
            snap = isinstance(it, ast.Call) and dotted(it.func) in ("list", "tuple")
            out.append(inst("ITER-SNAPSHOT", HOLDS if snap else VIOLATION, m, f"{m.short}[replay of the memo]",
                            f"`{src}` replays a snapshot of the memo" if snap else
                            f"`{src}` iterates the live memo while yielding: an instance constructed by the consumer (or by a rule "
                            f"that infers the type it ranges over) grows the registry store during the iteration and raises "
                            f"RuntimeError: dictionary changed size during iteration", line=x.lineno))
    if n == 0:
        raise AnalysisError("HashedIterable: replay of the memo not found")
    return out


# ---------------------------------------------------------------------------------- MEMO-SOURCE-FAILURE
def rule_memo_source_failure(db: ProgramDB) -> List[Instance]:
    """The memoising wrapper pulls from a one-shot source, and a pull can fail (user code raises inside a sub-query that is the domain,
    an iterator object reads from a flaky source).  After a failure the memo - the elements pulled before it - must not pass for the whole
    domain.  Two structural conditions:
      (a) what the wrapper puts between itself and the source is not a generator: an exception that passes through a generator finishes it,
          and the elements the source still has would never be pulled (a `map` hands the exception on and stays usable);
      (b) a domain given as an EXPRESSION is read from a generator over one evaluation of the expression, and that generator is finished by
          the exception whatever wraps it: the variable's per-evaluation reset re-creates such a domain (and reaches the expression, which
          is not below the variable in the graph), so the next evaluation of the query evaluates the expression anew."""
    out = []
    hi = db.cls("HashedIterable")
    n = 0
    for m in hi.methods.values():
        for a_ in own_nodes(m.node):
            if not (isinstance(a_, ast.Assign) and any(isinstance(t, ast.Attribute) and t.attr == "iterable" and isinstance(t.value, ast.Name) and t.value.id == "self"
                                                       for t in a_.targets)):
                continue
            v = a_.value
            if isinstance(v, (ast.Name, ast.Attribute, ast.Constant, ast.List)):
                continue
            n += 1
            gen = isinstance(v, ast.GeneratorExp)
            how = unparse(v)[:60]
            if isinstance(v, ast.Call):
                t = None
                if isinstance(v.func, ast.Attribute) and isinstance(v.func.value, ast.Name) and v.func.value.id in ("self", "cls"):
                    t = hi.lookup(v.func.attr)
                elif isinstance(v.func, ast.Name):
                    t = db.resolve_dotted(m.module, v.func)
                if isinstance(t, FuncInfo):
                    rets = [r.value for r in own_nodes(t.node) if isinstance(r, ast.Return) and r.value is not None]
                    gen = t.is_generator or any(isinstance(r, ast.GeneratorExp) for r in rets)
                    how = f"{t.short} -> " + (unparse(rets[0])[:40] if rets else "generator")
            out.append(inst("MEMO-SOURCE-FAILURE", VIOLATION if gen else HOLDS, m, f"{m.short}[the wrapper survives a failed pull]",
                            f"`{how}` is a generator between the wrapper and the source: an exception of the source that passes through it finishes it, so after one failed "
                            f"pull every later evaluation stops at the memoised prefix and never pulls the elements the source still has" if gen else
                            f"`{how}`: not a generator, an exception of the source leaves it usable", line=a_.lineno))
    if n == 0:
        raise AnalysisError("HashedIterable: the place where the source is wrapped was not found")
    var = db.cls("Variable")
    rm = var.methods.get("_reset_only_my_cache_")
    if rm is None or rm.cls is not var:
        raise AnalysisError("Variable._reset_only_my_cache_ not found")
    from ..boolexpr import guards_of
    recreated = False
    reaches = False
    for x in own_nodes(rm.node):
        if isinstance(x, ast.Call) and call_attr(x) == "_update_domain_":
            g = guards_of(x, rm.node.body) or []
            if any("SymbolicExpression" in unparse(t) and pol for t, pol in g):
                recreated = True
        if isinstance(x, ast.Call) and call_attr(x) in ("_reset_cache_",) and "domain" in unparse(x.func.value):
            reaches = True
    ok = recreated and reaches
    out.append(inst("MEMO-SOURCE-FAILURE", HOLDS if ok else VIOLATION, rm, "Variable._reset_only_my_cache_[a domain given as an expression is read anew]",
                    "the per-evaluation reset resets the domain expression and re-creates the domain from it" if ok else
                    ("the per-evaluation reset keeps a domain that was read from ONE evaluation of the expression it was given as: " if not recreated else
                     "the domain is re-created, but the expression it is read from (not below the variable in the graph) is not reset: ") +
                    "after user code raised inside the sub-query the generator over it is finished and the memo of what was pulled before passes for the whole domain; "
                    "let(Sub, domain=let(Base)) never sees an instance registered after its first evaluation", line=rm.lineno))
    return out


# ---------------------------------------------------------------------------------- SHARED-TAIL
def rule_shared_tail(db: ProgramDB) -> List[Instance]:
    """The one-shot source behind a lazily consumed domain is shared by every iteration over the wrapper.  An iteration that
    is suspended while another one pulls (two variables over the same sub-query, a variable whose domain is another variable
    of the query, two result iterators advanced alternately) has to be handed what the other pulled: the pull loop records
    every pulled element in an ordered record of the wrapper, and the iterator replays the part of that record it has not
    seen.  Replaying the memo once, at the start, loses those elements for good."""
    out = []
    hi = db.cls("HashedIterable")
    m = hi.methods.get("__iter__")
    if m is None or not m.is_generator:
        raise AnalysisError("HashedIterable.__iter__ is not a generator")
    n_pull = 0
    records: Set[str] = set()
    for pm in sorted(hi.methods.values(), key=lambda f: f.name):
        if pm.cls is not hi:
            continue
        for loop in [n for n in own_nodes(pm.node) if isinstance(n, ast.For) and isinstance(n.iter, ast.Attribute) and n.iter.attr == "iterable"
                     and isinstance(n.iter.value, ast.Name) and n.iter.value.id == "self"]:
            tn = {x.id for x in ast.walk(loop.target) if isinstance(x, ast.Name)}
            memoises = any(isinstance(a, ast.Assign) and any(isinstance(t, ast.Subscript) and unparse(t.value) == "self.values" for t in a.targets)
                           for a in ast.walk(loop)) or any(isinstance(c, ast.Call) and call_attr(c) in ("add", "setdefault") and unparse(c.func.value) in ("self", "self.values")
                                                           for c in ast.walk(loop))
            if not memoises:
                continue
            n_pull += 1
            rec = {unparse(c.func.value) for c in ast.walk(loop) if isinstance(c, ast.Call) and call_attr(c) == "append" and c.args
                   and {x.id for x in ast.walk(c.args[0]) if isinstance(x, ast.Name)} & tn and unparse(c.func.value).startswith("self.")}
            records |= rec
            ok = bool(rec)
            out.append(inst("SHARED-TAIL", HOLDS if ok else VIOLATION, pm, f"{pm.short}[what is pulled is recorded in order]",
                            f"pulled elements are recorded in `{sorted(rec)[0]}`" if ok else
                            "elements pulled from the shared one-shot source into the memo here are not recorded in the ordered record live iterations "
                            "replay: an iteration suspended at this moment (two variables whose domain is the same sub-query, two result iterators "
                            "advanced alternately, a lookup by id in between) never sees them", line=loop.lineno))
    if n_pull == 0:
        raise AnalysisError("HashedIterable: no loop pulling from self.iterable into the memo found")
    replayed = {unparse(s.value) for y in own_nodes(m.node) if isinstance(y, ast.Yield) and y.value is not None
                for s in ast.walk(y.value) if isinstance(s, ast.Subscript) and unparse(s.value) in records}
    # the position from which the record is replayed is taken together with the memo snapshot, before this iteration can be
    # suspended: what another iteration pulls while the snapshot is being replayed is neither in the snapshot nor before a
    # position taken afterwards
    if replayed:
        rec = sorted(replayed)[0]
        idx_names = {x.id for y in own_nodes(m.node) if isinstance(y, ast.Yield) and y.value is not None
                     for sub in ast.walk(y.value) if isinstance(sub, ast.Subscript) and unparse(sub.value) == rec
                     for x in ast.walk(sub.slice) if isinstance(x, ast.Name)}
        cfg_i = CFG(m)
        inits = [nd for nd in cfg_i.nodes if nd.kind == "stmt" and isinstance(nd.ast, ast.Assign) and any(isinstance(t, ast.Name) and t.id in idx_names for t in nd.ast.targets)
                 and any(isinstance(c, ast.Call) and dotted(c.func) == "len" and c.args and unparse(c.args[0]) == rec for c in ast.walk(nd.ast.value))]
        first_init = None
        for nd in inits:
            # the initialisation: reachable from the entry without passing another assignment of the index
            if cfg_i.find_path(cfg_i.entry, lambda x, nd=nd: x.id == nd.id, kinds=("n",), blocked=lambda x: x in inits and x is not nd) is not None:
                first_init = nd if first_init is None or nd.lineno < first_init.lineno else first_init
        if first_init is None:
            raise AnalysisError("HashedIterable.__iter__: the initial position in the record of pulled elements was not found")
        # every path to it is free of suspension points
        late = cfg_i.find_path(cfg_i.entry, lambda x: x.has_yield, kinds=("n",), blocked=lambda x: x.id == first_init.id)
        ok_pos = late is None
        out.append(inst("SHARED-TAIL", HOLDS if ok_pos else VIOLATION, m, "HashedIterable.__iter__[position taken before the first suspension]",
                        "the replay position is fixed before the iterator can be suspended (together with the memo snapshot)" if ok_pos else
                        f"`{first_init.src()}` runs after a suspension point ({' '.join(cfg_i.describe_path(late)[-2:])}): an element another iteration pulls while this one "
                        f"is still replaying the memo snapshot is in neither the snapshot nor the part of the record that is replayed, so a second "
                        f"evaluation started on a part-pulled domain loses it", line=first_init.lineno))
    if replayed:
        # while this iteration was suspended at a yield another one may have pulled: before it pulls again, and before it ends, it
        # compares its position with the length of the record
        def compares_position(nd):
            t = getattr(nd.stmt, "test", None) if nd.kind == "test" else None
            return isinstance(t, ast.Compare) and any(isinstance(x, ast.Name) and x.id in idx_names for x in ast.walk(t)) and \
                any(isinstance(c, ast.Call) and dotted(c.func) == "len" and c.args and unparse(c.args[0]) == rec for c in ast.walk(t))
        pull_heads = [nd for nd in cfg_i.nodes if nd.kind == "for" and isinstance(nd.stmt.iter, ast.Attribute) and nd.stmt.iter.attr == "iterable"]
        bad_tail = None
        for h_ in pull_heads:
            body_ids = {id(x) for b in h_.stmt.body for x in ast.walk(b)}
            for y in [nd for nd in cfg_i.nodes if nd.has_yield and nd.ast is not None and id(nd.ast) in body_ids]:
                p_ = cfg_i.find_path(y.id, lambda x, h_=h_: x.id == h_.id, kinds=("n",), blocked=compares_position)
                if p_ is not None:
                    bad_tail = ("pulls again", y, p_)
            p_end = cfg_i.find_path(h_.id, lambda x: x.id == cfg_i.exit or x.kind == "return", kinds=("n",), blocked=compares_position,
                                    edge_ok=lambda e, h_=h_: not (e.src == h_.id and e.label == "iter"))
            if p_end is not None and bad_tail is None:
                bad_tail = ("ends", h_, p_end)
        out.append(inst("SHARED-TAIL", VIOLATION if bad_tail else HOLDS, m, "HashedIterable.__iter__[record re-read after every suspension]",
                        f"after `{bad_tail[1].src()[:40]}` the iterator {bad_tail[0]} without comparing its position with the record of pulled elements "
                        f"({' '.join(cfg_i.describe_path(bad_tail[2])[-2:])}): what another iteration pulled while this one was suspended (an outer and a nested term "
                        f"over one pool variable) is never replayed - Handle(From(pool), part_of=Container(From(pool), size=3)) returns ['h1'] instead of three"
                        if bad_tail else "after every yield, and before it ends, the iterator compares its position with the record", line=m.lineno))
    ok = bool(replayed)
    out.append(inst("SHARED-TAIL", HOLDS if ok else VIOLATION, m, "HashedIterable.__iter__[other iterations' pulls are replayed]",
                    f"the iterator replays `{sorted(replayed)[0]}` by position" if ok else
                    "an element another iteration pulls from the shared source while this one is suspended is never handed to this one (the memo is "
                    "replayed once, at the start): two variables whose domain is the same sub-query, or two result iterators advanced "
                    "alternately, each lose what the other pulled", line=m.lineno))
    return out


# ---------------------------------------------------------------------------------- SET-ALGEBRA
def rule_set_algebra(db: ProgramDB) -> List[Instance]:
    """The set operations of the value container are used to compute which variables an operator combines
    (`left._unique_variables_.union(right._unique_variables_)`), which are unbound (`difference`) and which conclusions
    apply.  Each is decided by its membership table: an element only in the receiver, only in the argument, in both."""
    out = []
    hi = db.cls("HashedIterable")
    want = {"union": (True, True, True), "intersection": (False, False, True), "difference": (True, False, False)}

    def table(e: ast.AST, env) -> Optional[Tuple[bool, bool, bool]]:
        if isinstance(e, ast.Name) and e.id in env:
            return env[e.id]
        u = unparse(e)
        if u in ("self.values.keys()", "self.values", "set(self.values)", "self.values.keys", "self"):
            return (True, False, True)
        if u in ("other.values.keys()", "other.values", "set(other.values)", "other"):
            return (False, True, True)
        if isinstance(e, ast.BinOp):
            a, b = table(e.left, env), table(e.right, env)
            if a is None or b is None:
                return None
            f = {ast.BitOr: lambda x, y: x or y, ast.BitAnd: lambda x, y: x and y, ast.Sub: lambda x, y: x and not y,
                 ast.BitXor: lambda x, y: x != y}.get(type(e.op))
            return tuple(f(x, y) for x, y in zip(a, b)) if f else None
        if isinstance(e, ast.Call) and isinstance(e.func, ast.Attribute) and e.func.attr in ("union", "intersection", "difference", "symmetric_difference") \
                and len(e.args) == 1 and not unparse(e.func.value) in ("self", "other"):
            a, b = table(e.func.value, env), table(e.args[0], env)
            if a is None or b is None:
                return None
            f = {"union": lambda x, y: x or y, "intersection": lambda x, y: x and y, "difference": lambda x, y: x and not y,
                 "symmetric_difference": lambda x, y: x != y}[e.func.attr]
            return tuple(f(x, y) for x, y in zip(a, b))
        if isinstance(e, ast.Call) and dotted(e.func) in ("set", "list", "sorted", "frozenset", "tuple") and len(e.args) == 1:
            return table(e.args[0], env)
        if isinstance(e, (ast.DictComp, ast.SetComp, ast.ListComp)) and len(e.generators) == 1 and isinstance(e.generators[0].target, ast.Name):
            g = e.generators[0]
            keyexpr = e.key if isinstance(e, ast.DictComp) else e.elt
            if unparse(keyexpr) != g.target.id:
                return None
            base = table(g.iter, env)
            if base is None:
                return None
            for cond in g.ifs:
                if isinstance(cond, ast.Compare) and len(cond.ops) == 1 and unparse(cond.left) == g.target.id and isinstance(cond.ops[0], (ast.In, ast.NotIn)):
                    c = table(cond.comparators[0], env)
                    if c is None:
                        return None
                    base = tuple(x and (y if isinstance(cond.ops[0], ast.In) else not y) for x, y in zip(base, c))
                else:
                    return None
            return base
        if isinstance(e, ast.Dict) and all(k is None for k in e.keys):
            r = (False, False, False)
            for v in e.values:
                t = table(v, env)
                if t is None:
                    return None
                r = tuple(x or y for x, y in zip(r, t))
            return r
        if isinstance(e, ast.Call) and dotted(e.func) == "HashedIterable":
            for kw in e.keywords:
                if kw.arg == "values":
                    return table(kw.value, env)
            return None
        return None
    for name, w in want.items():
        m = hi.methods.get(name)
        if m is None:
            raise AnalysisError(f"HashedIterable.{name} not found")
        env: Dict[str, Tuple[bool, bool, bool]] = {}
        res = None
        undec = None
        for st in m.node.body:
            if isinstance(st, ast.Assign) and len(st.targets) == 1 and isinstance(st.targets[0], ast.Name):
                t = table(st.value, env)
                if t is not None:
                    env[st.targets[0].id] = t
                else:
                    env.pop(st.targets[0].id, None)
            elif isinstance(st, ast.Return) and st.value is not None:
                res = table(st.value, env)
                if res is None:
                    undec = st
        if res is None:
            out.append(inst("SET-ALGEBRA", UNDECIDED, m, f"HashedIterable.{name}[membership table]",
                            f"could not derive which elements `{unparse(undec)[:60] if undec else 'the method'}` contains", line=m.lineno))
            continue
        ok = res == w
        names = ("only in the receiver", "only in the argument", "in both")
        diff = [f"an element {names[i]} is {'kept' if res[i] else 'dropped'}" for i in range(3) if res[i] != w[i]]
        out.append(inst("SET-ALGEBRA", HOLDS if ok else VIOLATION, m, f"HashedIterable.{name}[membership table]",
                        "membership table as the name says" if ok else
                        f"{name}(): " + "; ".join(diff) + " - the variables an operator shares with its sibling (or a conclusion both branches draw) "
                        "fall out of the combined set: the operator's cache and duplicate keys lose them and rows that differ only there are merged",
                        line=m.lineno))
    return out


# ---------------------------------------------------------------------------------- PULLED-RECORD
def rule_pulled_record(db: ProgramDB) -> List[Instance]:
    """The record of what was pulled from the one-shot source is how a suspended iteration catches up with what another
    iteration (or a lookup by id) pulled meanwhile.  It says exactly 'these came out of the source, in this order': (a) it is
    appended to only with the value just taken from the source (the target of the enclosing loop over `self.iterable`) - a value
    that gets into the memo another way (add(), update(): a rule registering the instance it has just built) was not pulled, and
    handing it to a suspended iteration makes a rule feed on its own output within one evaluation; (b) it is emptied only by
    clear() - an iteration that has caught up must not take the record away from iterations that are further back."""
    out = []
    hi = db.cls("HashedIterable")
    rec = [f.name for f in hi.fields() if f.name == "pulled"]
    if not rec:
        raise AnalysisError("HashedIterable.pulled not found")
    n = 0
    for name, m in hi.methods.items():
        if m.cls is not hi:
            continue
        for x in own_nodes(m.node):
            if isinstance(x, ast.Call) and isinstance(x.func, ast.Attribute) and isinstance(x.func.value, ast.Attribute) and x.func.value.attr == "pulled" \
                    and unparse(x.func.value.value) == "self":
                n += 1
                if x.func.attr in ("append", "extend", "insert"):
                    arg = x.args[-1] if x.args else None
                    loops = []
                    y = x
                    while y is not None and y is not m.node:
                        y = db.parent(y)
                        if isinstance(y, ast.For):
                            loops.append(y)
                    ok = isinstance(arg, ast.Name) and any(isinstance(l.target, ast.Name) and l.target.id == arg.id and "self.iterable" in unparse(l.iter) for l in loops)
                    out.append(inst("PULLED-RECORD", HOLDS if ok else VIOLATION, m, f"{m.short}[{unparse(x)[:40]}]",
                                    "records the value just taken from the source" if ok else
                                    f"`{unparse(x)}` records a value that was not taken from the source here: a suspended iteration over this object is handed it as if it had been "
                                    f"pulled - a variable without a domain that iterates the registry while a rule adds the instances it builds sees them in the same "
                                    f"evaluation (the rule feeds on its own output)", line=x.lineno))
                elif x.func.attr in ("clear", "pop", "remove") and name != "clear":
                    out.append(inst("PULLED-RECORD", VIOLATION, m, f"{m.short}[{unparse(x)[:40]}]",
                                    f"`{unparse(x)}` empties the record outside clear(): an iteration that is suspended further back finds nothing to catch up with and an "
                                    f"exhausted source - it ends early and its remaining results are lost (two result iterators of one query advanced alternately)", line=x.lineno))
                elif name == "clear":
                    out.append(inst("PULLED-RECORD", HOLDS, m, f"{m.short}[{unparse(x)[:40]}]", "emptied together with the memo", line=x.lineno))
            if isinstance(x, (ast.Assign, ast.AugAssign, ast.Delete)):
                tg = x.targets if isinstance(x, (ast.Assign, ast.Delete)) else [x.target]
                if any(isinstance(t, (ast.Attribute, ast.Subscript)) and "self.pulled" in unparse(t) for t in tg) and name not in ("__init__", "__post_init__"):
                    n += 1
                    out.append(inst("PULLED-RECORD", VIOLATION, m, f"{m.short}[{unparse(x)[:40]}]", f"`{unparse(x)[:60]}` rebinds / deletes from the record outside clear()", line=x.lineno))
    if n < 3:
        raise AnalysisError(f"only {n} writes of the record found")
    return out


# ---------------------------------------------------------------------------------- EXPRESSION-NOT-ITERATED
def rule_expression_not_iterated(db: ProgramDB) -> List[Instance]:
    """A Variable is iterable: iterating it enumerates its domain (that is how its evaluation pulls values).  Outside that, handing an
    expression to something that iterates its argument - `set.update(var)`, `list(var)`, `for _ in var`, `*var` - walks the whole
    domain as a side effect: results stay right, and a lazily supplied one-shot domain is consumed to the end before the first
    result is delivered.  Typed rule: names bound to the elements of a field annotated as a collection of expressions (or
    parameters annotated as expressions) do not occur in an iterating position."""
    out = []
    se = db.cls("SymbolicExpression")
    ITER_CALLS = ("list", "set", "tuple", "sorted", "frozenset", "sum", "any", "all", "max", "min", "enumerate", "zip", "iter")
    ITER_METHODS = ("update", "extend", "union", "difference", "intersection")
    n_names = 0
    for c in sorted([se] + se.all_subclasses(), key=lambda k: k.qualname):
        for m in c.methods.values():
            if m.cls is not c:
                continue
            typed: Set[str] = set()
            a = m.node.args
            for p_ in a.posonlyargs + a.args + a.kwonlyargs:
                if p_.annotation is not None and p_.arg != "self":
                    cls_ = db.annotation_classes(c.module, p_.annotation)
                    u = unparse(p_.annotation)
                    if cls_ and all(k.is_subclass_of(se) or k is se for k in cls_) and not any(w in u for w in ("List", "Dict", "Iterable", "Set", "Tuple", "list", "dict")):
                        typed.add(p_.arg)
            for l in own_nodes(m.node):
                tgt, it = None, None
                if isinstance(l, (ast.For, ast.comprehension)):
                    tgt, it = l.target, l.iter
                if tgt is None or not isinstance(tgt, ast.Name):
                    continue
                base = it
                if isinstance(base, ast.Call) and isinstance(base.func, ast.Attribute) and base.func.attr == "values" and not base.args:
                    base = base.func.value
                if isinstance(base, ast.Attribute) and isinstance(base.value, ast.Name) and base.value.id == "self":
                    fld = next((f for k in c.mro for f in k.own_fields if f.name == base.attr), None)
                    if fld is not None and fld.annotation is not None:
                        u = unparse(fld.annotation)
                        cls_ = db.annotation_classes(c.module, fld.annotation)
                        if cls_ and any(k.is_subclass_of(se) for k in cls_) and any(w in u for w in ("List", "Dict", "Iterable", "Tuple", "list", "dict")) \
                                and "HashedIterable" not in u and "HashedValue" not in u:
                            typed.add(tgt.id)
            if not typed:
                continue
            n_names += len(typed)
            bad = None
            for x in own_nodes(m.node):
                if isinstance(x, ast.Call):
                    nm = dotted(x.func) or ""
                    if (nm in ITER_CALLS or (isinstance(x.func, ast.Attribute) and x.func.attr in ITER_METHODS)) and any(isinstance(g, ast.Name) and g.id in typed for g in x.args):
                        bad = (x, next(g.id for g in x.args if isinstance(g, ast.Name) and g.id in typed))
                if isinstance(x, (ast.For, ast.comprehension)) and isinstance(x.iter, ast.Name) and x.iter.id in typed:
                    bad = (x.iter, x.iter.id)
                if isinstance(x, ast.Starred) and isinstance(x.value, ast.Name) and x.value.id in typed:
                    bad = (x, x.value.id)
                if bad:
                    break
            out.append(inst("EXPRESSION-NOT-ITERATED", VIOLATION if bad else HOLDS, m, f"{m.short}[{', '.join(sorted(typed))[:40]}]",
                            "no expression is handed to something that iterates it" if not bad else
                            f"`{unparse(bad[0])[:60]}` iterates `{bad[1]}`, which is an expression: iterating a Variable enumerates its domain, so the whole of a lazily supplied "
                            f"one-shot domain is pulled here (while the required variables of a disjunction are collected) before the first result is delivered",
                            line=getattr(bad[0], "lineno", m.lineno) if bad else m.lineno))
    if n_names < 5:
        raise AnalysisError(f"only {n_names} expression-typed names found")
    return out



# ---------------------------------------------------------------------------------- PULLED-SO-FAR-NOT-ASKED
def rule_pulled_so_far_not_asked(db: ProgramDB) -> List[Instance]:
    """`<variable>._domain_.values` is the memo of what has been PULLED from the supplied domain so far: empty for a one-shot iterator
    nobody has advanced yet, partial afterwards.  Whether a domain was supplied, whether a variable is to be inferred, what to range over:
    none of that may be decided by asking the memo, or the result of a query depends on which other query pulled from the shared iterator
    before.  Rule: outside the container itself, no condition reads the memo (`.values`, `.pulled`) of a variable's domain; the only use is the
    size hint of the cartesian-product warning."""
    out = []
    n = 0
    for fn in sorted(db.all_functions(), key=lambda f: f.qualname):
        if fn.module not in ("symbolic", "predicate", "entity", "conclusion", "conclusion_selector", "rule"):
            continue
        for x in own_nodes(fn.node):
            if not (isinstance(x, ast.Attribute) and x.attr in ("values", "pulled") and isinstance(x.value, ast.Attribute) and x.value.attr == "_domain_"):
                continue
            par = db.parent(x)
            if isinstance(par, ast.Call) and par.func is x:
                continue                 # .values() of something else
            # in a condition?
            cond = False
            p, ch = par, x
            while p is not None and not isinstance(p, ast.stmt):
                if isinstance(p, (ast.BoolOp, ast.IfExp, ast.Compare)) or (isinstance(p, ast.UnaryOp) and isinstance(p.op, ast.Not)) \
                        or (isinstance(p, ast.Call) and isinstance(p.func, ast.Name) and p.func.id in ("len", "bool", "any", "all")):
                    cond = True
                ch, p = p, db.parent(p)
            if isinstance(p, (ast.If, ast.While)) and any(y is x for y in ast.walk(p.test)):
                cond = True
            if not cond:
                continue
            n += 1
            hint = fn.name.startswith("_warn")
            out.append(inst("PULLED-SO-FAR-NOT-ASKED", INFO if hint else VIOLATION, fn, f"{fn.short}[{unparse(x)}]",
                            "size hint of a warning: no result depends on it" if hint else
                            f"`{unparse(x)}` is what has been pulled from the domain so far, and a condition reads it: for a domain given as a one-shot iterator the answer is "
                            f"'nothing' until some evaluation has advanced it - a rule over such a variable yields nothing and pulls nothing, while the same rule after "
                            f"another query pulled one element works", line=x.lineno))
    out.append(inst("PULLED-SO-FAR-NOT-ASKED", HOLDS, "src/entity_query_language/symbolic.py", "evaluation code[the memo of a lazily read domain decides nothing]",
                    f"{n} reads of a domain's memo in a condition found (the warning's size hint)"))
    if n == 0:
        raise AnalysisError("the detector found no read of a domain memo in a condition, not even the size hint of the warning")
    return out
