"""C13: predicate-form terms equal the explicit form and filter by type."""
from __future__ import annotations

import ast
from typing import Dict, List, Optional, Set, Tuple

from ..db import ProgramDB, FuncInfo, ClassInfo, AnalysisError, unparse, own_nodes, dotted
from ..cfg import CFG, Node, Edge, run_forward
from ..facts import own_calls, call_attr, resolve_call_target, bind_args, fn_params, local_defs
from ..framework import inst, HOLDS, VIOLATION, UNDECIDED, INFO, Instance
from ..abseval import AbsEval, State, const, TOP, TRUE, FALSE, NONE, truth, fmt


# ---------------------------------------------------------------------------------- SLOT-ALIGN
def slot_alignment(db: ProgramDB, scenario: List[str]):
    """Abstractly run update_domain_and_kwargs_from_args over a positional-argument list given as tokens
    'From' / 'a0' / 'a1' ...; returns [(arg token, index into the __init__ parameter names)] and raise info."""
    fn = db.fn("predicate:update_domain_and_kwargs_from_args")
    cfg = CFG(fn)
    star = fn.node.args.vararg.arg if fn.node.args.vararg else None
    if star is None:
        raise AnalysisError("update_domain_and_kwargs_from_args no longer takes *args")
    loops = [n for n in cfg.nodes if n.kind == "for" and star in {x.id for x in ast.walk(n.ast.iter) if isinstance(x, ast.Name)}]
    if len(loops) != 1:
        raise AnalysisError(f"expected one loop over *{star}, found {len(loops)}")
    loop = loops[0]
    it = loop.ast.iter
    enumerated = isinstance(it, ast.Call) and dotted(it.func) == "enumerate"
    start = 0
    if enumerated:
        for k in it.keywords:
            if k.arg == "start" and isinstance(k.value, ast.Constant):
                start = k.value.value
        if len(it.args) > 1 and isinstance(it.args[1], ast.Constant):
            start = it.args[1].value
    elif not (isinstance(it, ast.Name) and it.id == star):
        raise AnalysisError(f"loop iterates `{unparse(it)}`: idiom not in the accepted table (pre-filtered sequences and "
                            f"inspect.Signature.bind are not modelled)")
    tgt = loop.ast.target
    if enumerated:
        if not (isinstance(tgt, ast.Tuple) and len(tgt.elts) == 2 and all(isinstance(e, ast.Name) for e in tgt.elts)):
            raise AnalysisError("enumerate target is not (index, arg)")
        idx_name, arg_name = tgt.elts[0].id, tgt.elts[1].id
    else:
        if not isinstance(tgt, ast.Name):
            raise AnalysisError("loop target is not a name")
        idx_name, arg_name = None, tgt.id
    from_cls = db.cls("From")
    records: List[Tuple[str, object]] = []
    raises: List[Tuple[str, int]] = []

    def call_hook(c, st, ev):
        if dotted(c.func) == "isinstance" and len(c.args) == 2 and isinstance(c.args[0], ast.Name) \
                and c.args[0].id == arg_name:
            r = db.resolve_dotted(fn.module, c.args[1])
            if isinstance(r, ClassInfo) and r is from_cls:
                v = st.get(arg_name)
                return const(v == ("obj", "From"))
        return None

    ev = AbsEval(db, fn, cfg, call_hook=call_hook)
    base_edge = ev.edge_transfer

    def edge_transfer(e: Edge, node: Node, st_in, st_out):
        if node.id == loop.id and e.kind == "n":
            k = st_in.get("$k")[1]
            if e.label == "iter":
                if k >= len(scenario):
                    return None
                st = st_out.set("$k", const(k + 1))
                tok = scenario[k]
                st = st.set(arg_name, ("obj", "From") if tok == "From" else ("obj", tok))
                if idx_name:
                    st = st.set(idx_name, const(k + start))
                return st
            if e.label == "done":
                return st_out if k == len(scenario) else None
        if e.kind != "n":
            return None
        return base_edge(e, node, st_in, st_out)

    def post_hook(node, st_in, st_out, ev_):
        a = node.ast
        if node.kind == "stmt" and isinstance(a, ast.Assign):
            for sub in ast.walk(a.value):
                if isinstance(sub, ast.Subscript) and isinstance(sub.value, ast.Name) and _is_init_args(fn, sub.value.id):
                    vals = ev_.eval(sub.slice, st_in)
                    tok = st_in.get(arg_name)
                    for v in vals:
                        records.append((tok[1] if tok != TOP else "?", v[1] if v != TOP and v[0] == "const" else None))
        if node.kind == "raise_stmt":
            tok = st_in.get(arg_name)
            raises.append((tok[1] if tok != TOP else "?", node.lineno))
        return st_out
    ev.post_hook = post_hook
    run_forward(cfg, State({"$k": const(0)}), ev.transfer, edge_transfer, kinds=("n",))
    return fn, sorted(set(records), key=str), raises


def _is_init_args(fn: FuncInfo, name: str) -> bool:
    for v in local_defs(fn).get(name, []):
        if isinstance(v, ast.AST) and "cls_args" in unparse(v):
            return True
        if isinstance(v, ast.AST) and ("signature" in unparse(v) or "parameters" in unparse(v)):
            return True
    return False


def rule_slot_align(db: ProgramDB) -> List[Instance]:
    out = []
    scenarios = {
        "T(From(d), a0, a1)": (["From", "a0", "a1"], {"a0": 1, "a1": 2}),
        "T(a0, a1)": (["a0", "a1"], {"a0": 1, "a1": 2}),
        "T(From(d), a0)": (["From", "a0"], {"a0": 1}),
    }
    # does cls_args include `self`? (update_cls_args takes the parameters of __init__, self first)
    for label, (sc, want) in scenarios.items():
        fn, recs, raises = slot_alignment(db, sc)
        got: Dict[str, Set] = {}
        for tok, idx in recs:
            got.setdefault(tok, set()).add(idx)
        for tok, w in want.items():
            g = got.get(tok, set())
            ok = g == {w}
            out.append(inst("SLOT-ALIGN", HOLDS if ok else VIOLATION, fn, f"update_domain_and_kwargs_from_args[{label}:{tok}]",
                            f"in `{label}` the positional value {tok} is bound to __init__ parameter #{sorted(g, key=str)} "
                            f"(0 = self)" + ("" if ok else f"; Python binds it to parameter #{w}: the From(...) argument "
                                             f"names no field and must not be counted")))
    return out


# ---------------------------------------------------------------------------------- DECL-FILTER
def rule_decl_filter(db: ProgramDB) -> List[Instance]:
    out = []
    fn = db.fn("predicate:extract_selected_variable_and_expression")
    p0 = fn.positional_params[0]
    var_cls = db.cls("Variable")
    # (a) lazy isinstance filter on the supplied domain with the runtime class parameter
    filters = []
    subjects: Dict[int, Tuple[ast.AST, List[str]]] = {}
    for n in own_nodes(fn.node):
        if isinstance(n, ast.Assign):
            v = n.value
            # the filter may be wrapped in a fresh From(...)
            if isinstance(v, ast.Call) and isinstance(db.resolve_dotted(fn.module, v.func), ClassInfo) \
                    and db.resolve_dotted(fn.module, v.func).name == "From" and len(v.args) == 1:
                v = v.args[0]
            pred_cls = None
            lazy = None
            if isinstance(v, ast.Call) and dotted(v.func) == "filter" and len(v.args) == 2 and isinstance(v.args[0], ast.Lambda):
                lazy = True
                body = v.args[0].body
                if isinstance(body, ast.Call) and dotted(body.func) == "isinstance" and len(body.args) == 2:
                    pred_cls = unparse(body.args[1])
                    subjects[id(n)] = (body.args[0], [a_.arg for a_ in v.args[0].args.args])
                src = v.args[1]
            elif isinstance(v, (ast.GeneratorExp, ast.ListComp)) and len(v.generators) == 1 and v.generators[0].ifs:
                lazy = isinstance(v, ast.GeneratorExp)
                t = v.generators[0].ifs[0]
                if isinstance(t, ast.Call) and dotted(t.func) == "isinstance" and len(t.args) == 2:
                    pred_cls = unparse(t.args[1])
                    subjects[id(n)] = (t.args[0], [x_.id for x_ in ast.walk(v.generators[0].target) if isinstance(x_, ast.Name)])
                src = v.generators[0].iter
            elif isinstance(v, ast.Call) and dotted(v.func) in ("list", "tuple") and v.args and isinstance(v.args[0], ast.Call) \
                    and dotted(v.args[0].func) == "filter":
                lazy = False
                inner = v.args[0]
                if isinstance(inner.args[0], ast.Lambda) and isinstance(inner.args[0].body, ast.Call):
                    pred_cls = unparse(inner.args[0].body.args[1]) if len(inner.args[0].body.args) == 2 else None
                    if len(inner.args[0].body.args) == 2:
                        subjects[id(n)] = (inner.args[0].body.args[0], [a_.arg for a_ in inner.args[0].args.args])
                src = inner.args[1]
            else:
                continue
            if "domain" in unparse(src):
                filters.append((n, pred_cls, lazy))
    if not filters:
        out.append(inst("DECL-FILTER", VIOLATION, fn, "extract_selected_variable_and_expression[isinstance filter]",
                        "the supplied domain is not filtered by isinstance(v, <class>): members of other types would "
                        "range over the variable"))
    for n, pred_cls, lazy in filters:
        if pred_cls == p0 and not lazy:
            out.append(inst("DECL-FILTER", VIOLATION, fn, "extract_selected_variable_and_expression[isinstance filter is lazy]",
                            f"`{unparse(n)[:90]}` builds the filtered domain eagerly: when no member of the domain is an instance "
                            f"of the class the result is an empty (falsy) collection, which Variable._update_domain_ takes for "
                            f"'no domain given', so the variable ranges over the registry of all instances instead of nothing",
                            line=n.lineno))
            continue
        ok = pred_cls == p0
        if ok and id(n) in subjects:
            subj, elems = subjects[id(n)]
            if not (isinstance(subj, ast.Name) and subj.id in elems):
                out.append(inst("DECL-FILTER", VIOLATION, fn, "extract_selected_variable_and_expression[the member itself is tested]",
                                f"`{unparse(n)[:110]}` judges `{unparse(subj)}`, not the member `{', '.join(elems)}` of the supplied collection: the members are the "
                                f"user's objects, and what an attribute of theirs happens to hold says nothing about their type (a class with a field of that "
                                f"name loses its instances, or keeps foreign ones)", line=n.lineno))
                continue
            out.append(inst("DECL-FILTER", HOLDS, fn, "extract_selected_variable_and_expression[the member itself is tested]",
                            f"the type test is applied to the member `{subj.id}` itself", line=n.lineno))
        out.append(inst("DECL-FILTER", HOLDS if ok else VIOLATION, fn, "extract_selected_variable_and_expression[isinstance filter]",
                        f"`{unparse(n)[:90]}` keeps exactly the instances of the class being constructed (`{p0}`)" if ok else
                        f"`{unparse(n)[:90]}` filters by `{pred_cls}`, not by the class being constructed (`{p0}`, the "
                        f"runtime class handed to __new__)", line=n.lineno))
    # (b) the variable is built for that same class and receives the (filtered) domain
    built = [c for c in own_calls(fn) if isinstance(resolve_call_target(db, fn, c), ClassInfo)
             and resolve_call_target(db, fn, c).is_subclass_of(var_cls)]
    for c in built:
        amap = bind_args(var_cls.init_params(), c)
        t_ok = "_type_" in amap and unparse(amap["_type_"]) == p0
        d_ok = "_domain_source_" in amap and "domain" in unparse(amap["_domain_source_"])
        ok = t_ok and d_ok
        out.append(inst("DECL-FILTER", HOLDS if ok else VIOLATION, fn, "extract_selected_variable_and_expression[Variable(...)]",
                        f"`{unparse(c)[:80]}`: type `{p0}` with the filtered domain" if ok else
                        f"`{unparse(c)[:80]}` does not build the variable for `{p0}` over the filtered domain", line=c.lineno))
    # (c) the runtime class is threaded from __new__ down (never the decorated class captured in the closure)
    sym = db.fn("predicate:symbol")
    closure_cls = sym.positional_params[0]
    for name in ("hybrid_new", "symbolic_new"):
        nf = sym.nested.get(name)
        if nf is None:
            raise AnalysisError(f"symbol.{name} not found")
        rt = nf.positional_params[0]
        for c in own_calls(nf):
            t = resolve_call_target(db, nf, c)
            if isinstance(t, FuncInfo) and t.qualname in ("predicate:symbol.<locals>.symbolic_new",
                                                          "predicate:extract_selected_variable_and_expression",
                                                          "predicate:update_domain_and_kwargs_from_args",
                                                          "predicate:instantiate_class_and_update_cache"):
                first = c.args[0] if c.args else None
                ok = isinstance(first, ast.Name) and first.id == rt
                out.append(inst("DECL-FILTER", HOLDS if ok else VIOLATION, nf, f"{name}->{t.name}[class argument]",
                                f"`{unparse(c)[:70]}` passes the runtime class `{rt}`" if ok else
                                f"`{unparse(c)[:70]}` passes `{unparse(first) if first is not None else '?'}` instead of "
                                f"the runtime class `{rt}`: undecorated subclasses would be treated as `{closure_cls}`",
                                line=c.lineno))
    return out


# ---------------------------------------------------------------------------------- FIELD-EQ
def rule_field_eq(db: ProgramDB) -> List[Instance]:
    out = []
    fn = db.fn("symbolic:properties_to_expression_tree")
    var_p, props_p = fn.positional_params[0], fn.positional_params[1]
    comps = [n for n in own_nodes(fn.node) if isinstance(n, (ast.ListComp, ast.GeneratorExp))
             and any(props_p in unparse(g.iter) for g in n.generators)]
    if len(comps) != 1:
        raise AnalysisError(f"properties_to_expression_tree: expected one comprehension over `{props_p}`, found {len(comps)}")
    comp = comps[0]
    g = comp.generators[0]
    ok_iter = unparse(g.iter) == f"{props_p}.items()" and not g.ifs and isinstance(g.target, ast.Tuple) and len(g.target.elts) == 2
    k, v = (g.target.elts[0].id, g.target.elts[1].id) if ok_iter else (None, None)
    e = comp.elt
    ok_elt = isinstance(e, ast.Compare) and len(e.ops) == 1 and isinstance(e.ops[0], ast.Eq) and \
        unparse(e.left) == f"getattr({var_p}, {k})" and unparse(e.comparators[0]) == v
    if not ok_elt and isinstance(e, ast.Compare) and len(e.ops) == 1 and isinstance(e.ops[0], ast.Eq) and \
            unparse(e.comparators[0]) == f"getattr({var_p}, {k})" and unparse(e.left) == v:
        ok_elt = True
    out.append(inst("FIELD-EQ", HOLDS if ok_iter and ok_elt else VIOLATION, fn, "properties_to_expression_tree[one equality per field]",
                    f"`{unparse(comp)[:80]}`: one `getattr(var, field) == value` per given field, none skipped"
                    if ok_iter and ok_elt else
                    f"`{unparse(comp)[:80]}` is not one equality `getattr({var_p}, field) == value` per given field",
                    line=comp.lineno))
    # inside symbolic mode (so that == builds a Comparator) and conjoined with AND
    from .entries import with_regions, mode_manager_kind
    in_mode = any(mode_manager_kind(t) == "symbolic_mode" and any(x is comp for s in w.body for x in ast.walk(s))
                  for w, it, t in with_regions(db, fn))
    out.append(inst("FIELD-EQ", HOLDS if in_mode else VIOLATION, fn, "properties_to_expression_tree[built in symbolic mode]",
                    "the equalities are built inside `with symbolic_mode()`" if in_mode else
                    "the equalities are built outside symbolic mode: `==` would compare instead of building a condition"))
    AND = db.cls("AND")
    conj = False
    for c in own_calls(fn):
        t = resolve_call_target(db, fn, c)
        if isinstance(t, FuncInfo) and t.qualname == "symbolic:chained_logic" and c.args:
            r = db.resolve_dotted(fn.module, c.args[0])
            conj = isinstance(r, ClassInfo) and r.is_subclass_of(AND) and any(isinstance(a, ast.Starred) for a in c.args[1:])
        elif isinstance(t, FuncInfo) and t.qualname == "entity:and_":
            conj = True
    out.append(inst("FIELD-EQ", HOLDS if conj else VIOLATION, fn, "properties_to_expression_tree[conjoined]",
                    "several field equalities are conjoined with AND" if conj else
                    "several field equalities are not combined with AND"))
    return out


def rule_cls_args_signature(db: ProgramDB) -> List[Instance]:
    """SLOT-ALIGN binds positional values to `cls_args[cls]`; that list must be the parameter list of the class's actual
    __init__ (inspect.signature), on every path - not e.g. the dataclass field order, which differs for kw_only /
    init=False / InitVar fields and hand-written __init__."""
    out = []
    fn = db.fn("predicate:update_cls_args")
    p0 = fn.positional_params[0]
    stores = [n for n in own_nodes(fn.node) if isinstance(n, ast.Assign) and any(
        isinstance(t, ast.Subscript) and isinstance(t.value, ast.Name) and t.value.id == "cls_args" for t in n.targets)]
    if not stores:
        raise AnalysisError("update_cls_args: no store into cls_args found")
    for s_ in stores:
        v = s_.value
        src = unparse(v)
        sig = [c for c in ast.walk(v) if isinstance(c, ast.Call) and (dotted(c.func) or "").endswith("signature")]
        ok = bool(sig) and any(unparse(c.args[0]) == f"{p0}.__init__" for c in sig if c.args) and ".parameters" in src
        out.append(inst("CLS-ARGS-SIGNATURE", HOLDS if ok else VIOLATION, fn, f"update_cls_args[{src[:50]}]",
                        f"`{unparse(s_)[:90]}`: the parameter names of the class's own __init__" if ok else
                        f"`{unparse(s_)[:90]}` is not the parameter list of `{p0}.__init__`: positional field values are bound "
                        f"to the wrong fields whenever that order differs from __init__'s", line=s_.lineno))
    # the table is per CLASS: every access is keyed by the class object itself, not by a name of it (two classes can have one name:
    # the same class name in two modules, a class statement executed again with its fields reordered)
    n_acc = 0
    for f in db.all_functions():
        if f.module != "predicate":
            continue
        for x in own_nodes(f.node):
            key = None
            if isinstance(x, ast.Subscript) and isinstance(x.value, ast.Name) and x.value.id == "cls_args":
                key = x.slice
            elif isinstance(x, ast.Compare) and len(x.ops) == 1 and isinstance(x.ops[0], (ast.In, ast.NotIn)) and isinstance(x.comparators[0], ast.Name) \
                    and x.comparators[0].id == "cls_args":
                key = x.left
            elif isinstance(x, ast.Call) and isinstance(x.func, ast.Attribute) and isinstance(x.func.value, ast.Name) and x.func.value.id == "cls_args" \
                    and x.func.attr in ("get", "setdefault", "pop") and x.args:
                key = x.args[0]
            if key is None:
                continue
            n_acc += 1
            by_name = any(isinstance(y, ast.Attribute) and y.attr in ("__name__", "__qualname__", "__module__") for y in ast.walk(key)) or \
                any(isinstance(y, ast.Call) and dotted(y.func) in ("str", "repr") for y in ast.walk(key))
            out.append(inst("CLS-ARGS-SIGNATURE", VIOLATION if by_name else HOLDS, f, f"{f.short}[cls_args keyed by {unparse(key)[:30]}]",
                            "keyed by the class object" if not by_name else
                            f"`{unparse(x)[:60]}` keys the table of positional field names by a NAME of the class: two @symbol classes with the same name share one entry, and "
                            f"positional values of the second are bound to the fields the first has at those positions (Crate(From(d), 'bob', 'apples') with the two swapped)",
                            line=x.lineno))
    if n_acc < 3:
        raise AnalysisError(f"only {n_acc} accesses of the table of positional field names found")
    return out


def rule_decl_filter_paths(db: ProgramDB) -> List[Instance]:
    """On every path on which a (non-expression) domain is supplied, the domain that reaches the Variable has gone through
    an isinstance(…, <runtime class>) test: a lazily filtered collection, or a type test of the single object."""
    from ..abseval import AbsEval, State, TOP, FALSE
    from ..cfg import CFG
    out = []
    fn = db.fn("predicate:extract_selected_variable_and_expression")
    p0 = fn.positional_params[0]
    dparam = "domain" if "domain" in fn.params else fn.positional_params[1]
    cfg = CFG(fn)
    var_cls = db.cls("Variable")

    def builds_variable(n) -> bool:
        if n.ast is None or n.kind != "stmt":
            return False
        for c in ast.walk(n.ast):
            if isinstance(c, ast.Call):
                t = resolve_call_target(db, fn, c)
                if isinstance(t, ClassInfo) and t.is_subclass_of(var_cls):
                    return True
        return False

    def type_tested(n) -> bool:
        a = n.ast
        if a is None:
            return False
        scan = a
        for c in ast.walk(scan):
            if isinstance(c, ast.Call) and dotted(c.func) == "isinstance" and len(c.args) == 2 and unparse(c.args[1]) == p0:
                return True
        return False

    def call_hook(c, st, ev):
        if dotted(c.func) == "isinstance" and len(c.args) == 2 and unparse(c.args[1]).endswith("SymbolicExpression"):
            return FALSE       # the rule is about object / collection domains
        return None
    ev = AbsEval(db, fn, cfg, call_hook=call_hook)
    p = ev.explore([(cfg.entry, State({dparam: ("obj", "truthy")}))], builds_variable, blocked=type_tested, kinds=("n",))
    ok = p is None
    out.append(inst("DECL-FILTER", HOLDS if ok else VIOLATION, fn, "extract_selected_variable_and_expression[every supplied domain is type-filtered]",
                    f"every path with a supplied domain passes an isinstance(…, {p0}) test before the variable is built" if ok else
                    f"a supplied domain can reach the variable without any isinstance(…, {p0}) test (e.g. a single object given "
                    f"as the domain): the variable then ranges over an object of another type: " + " ".join(cfg.describe_path(p)[-3:])))

    # --- a domain given as an expression (a variable, an attribute / flatten of one, a sub-query): its values exist only
    # once it is evaluated, so (1) it must reach the variable untouched - in particular not through the filter for plain
    # iterables, a Variable is iterable but over bindings - and (2) the variable filters the values by its type when it
    # evaluates the expression.
    from ..abseval import TRUE

    def hook_expr(c, st, ev):
        if dotted(c.func) == "isinstance" and len(c.args) == 2 and unparse(c.args[1]).endswith("SymbolicExpression"):
            return TRUE
        return None

    def assigns_domain(n) -> bool:
        a = n.ast
        return n.kind == "stmt" and isinstance(a, ast.Assign) and any(isinstance(t, ast.Name) and t.id == dparam for t in a.targets)
    ev2 = AbsEval(db, fn, cfg, call_hook=hook_expr)
    p2 = ev2.explore([(cfg.entry, State({dparam: ("obj", "truthy")}))], assigns_domain, blocked=builds_variable, kinds=("n",))
    ok2 = p2 is None
    out.append(inst("DECL-FILTER", HOLDS if ok2 else VIOLATION, fn, "extract_selected_variable_and_expression[an expression domain reaches the variable untouched]",
                    "a domain that is an expression is recognised before the arm for plain iterables and handed to the variable as it is" if ok2 else
                    "a domain that is an expression can be replaced on the way to the variable (a Variable is iterable, but over "
                    "bindings: filtering it like a collection of objects drops everything): " + " ".join(cfg.describe_path(p2)[-2:])))
    upd = var_cls.lookup("_update_domain_")
    if upd is None:
        raise AnalysisError("Variable._update_domain_ not found")
    ucfg = CFG(upd)
    dp = upd.positional_params[1] if len(upd.positional_params) > 1 else "domain"

    def hook_upd(c, st, ev):
        if dotted(c.func) == "isinstance" and len(c.args) == 2:
            if unparse(c.args[1]).endswith("SymbolicExpression"):
                return TRUE
            if unparse(c.args[0]) == "self._type_" and unparse(c.args[1]) == "type":
                return TRUE
            if unparse(c.args[1]).endswith("HashedIterable"):
                return FALSE
        return None

    def stores(n) -> bool:
        return n.ast is not None and n.kind == "stmt" and any(isinstance(c, ast.Call) and call_attr(c) == "set_iterable" for c in ast.walk(n.ast))

    def filters_by_type(n) -> bool:
        if n.ast is None or n.kind != "stmt":
            return False
        for c in ast.walk(n.ast):
            if isinstance(c, ast.Call) and dotted(c.func) == "isinstance" and len(c.args) == 2 and unparse(c.args[1]) == "self._type_":
                # lazily: inside a lambda handed to filter() or the condition of a generator expression
                return True
        return False
    if not any(stores(n) for n in ucfg.nodes):
        raise AnalysisError("Variable._update_domain_: no set_iterable(...) call found")
    ev3 = AbsEval(db, upd, ucfg, call_hook=hook_upd)
    p3 = ev3.explore([(ucfg.entry, State({dp: ("obj", "truthy")}))], stores, blocked=filters_by_type, kinds=("n",))
    ok3 = p3 is None
    out.append(inst("DECL-FILTER", HOLDS if ok3 else VIOLATION, upd, "Variable._update_domain_[values of an expression domain are type-filtered]",
                    "the values an expression domain produces are filtered by isinstance(…, self._type_) before they become the domain" if ok3 else
                    "the values of a domain given as an expression (T(From(flatten(w.items))), T(From(other_variable))) become the "
                    "domain without an isinstance(…, self._type_) test: members of other types range over the variable"))
    return out


# ---------------------------------------------------------------------------------- DOMAIN-PRESENCE
def rule_domain_presence(db: ProgramDB) -> List[Instance]:
    """Whether a domain was supplied is decided by identity with None, never by the truthiness of the user's object: a
    supplied domain that happens to be falsy (an empty collection, a single object that defines __len__ / __bool__) is
    still the domain, and must not silently turn into 'no domain given' (= every instance ever constructed)."""
    out = []
    from_cls = db.cls("From")
    dom_field = "domain"
    if from_cls.field(dom_field) is None:
        raise AnalysisError("From has no field `domain`")
    let = db.fn("entity:let")
    carriers: List[Tuple[FuncInfo, str]] = []
    if "domain" not in let.params:
        raise AnalysisError("entity.let has no parameter `domain`")
    carriers.append((let, "domain"))

    def is_from_domain(e: ast.AST) -> bool:
        return isinstance(e, ast.Attribute) and e.attr == dom_field and ("domain" in unparse(e.value).lower() or "source" in unparse(e.value).lower())
    # functions that are directly handed `<From>.domain`
    for f in db.all_functions():
        for c in own_calls(f):
            for i, a in enumerate(c.args):
                if is_from_domain(a):
                    tgt = None
                    if isinstance(c.func, ast.Attribute) and isinstance(c.func.value, ast.Name) and c.func.value.id == "self" and f.cls:
                        tgt = f.cls.lookup(c.func.attr)
                    else:
                        t = resolve_call_target(db, f, c)
                        tgt = t if isinstance(t, FuncInfo) else None
                    if tgt is not None:
                        ps = [p for p, kw in fn_params(tgt) if not kw]
                        if i < len(ps) and (tgt, ps[i]) not in carriers:
                            carriers.append((tgt, ps[i]))

    def truth_uses(f: FuncInfo, name: str):
        def is_c(e):
            return isinstance(e, ast.Name) and e.id == name
        for n in own_nodes(f.node):
            tests = []
            if isinstance(n, (ast.If, ast.While, ast.IfExp)):
                tests.append(n.test)
            if isinstance(n, ast.Assert):
                tests.append(n.test)
            for t in tests:
                stack = [t]
                while stack:
                    e = stack.pop()
                    if is_c(e):
                        yield n, e
                    elif isinstance(e, ast.BoolOp):
                        stack.extend(e.values)
                    elif isinstance(e, ast.UnaryOp) and isinstance(e.op, ast.Not):
                        stack.append(e.operand)
            if isinstance(n, ast.BoolOp) and not any(n is x for x in []):
                # value position `a or b`: every operand but the last is tested for truth
                for v in n.values[:-1]:
                    if is_c(v):
                        yield n, v
    seen = set()
    for f, pname in carriers:
        uses = []
        for n, e in truth_uses(f, pname):
            if id(e) not in seen:
                seen.add(id(e))
                uses.append(n)
        none_tests = [n for n in own_nodes(f.node) if isinstance(n, ast.Compare) and isinstance(n.left, ast.Name) and n.left.id == pname
                      and len(n.ops) == 1 and isinstance(n.ops[0], (ast.Is, ast.IsNot)) and isinstance(n.comparators[0], ast.Constant)
                      and n.comparators[0].value is None]
        ok = not uses
        out.append(inst("DOMAIN-PRESENCE", HOLDS if ok else VIOLATION, f, f"{f.short}[presence of `{pname}`]",
                        (f"`{pname}` (the user's domain object) is never tested for truth; presence is decided by "
                         f"{len(none_tests)} identity test(s) with None") if ok else
                        f"`{unparse(uses[0] if not isinstance(uses[0], (ast.If, ast.While)) else uses[0].test)[:70]}` tests the user's domain object for truth: "
                        f"an empty collection or a falsy single object given as the domain counts as 'no domain', and the variable "
                        f"ranges over every instance ever constructed instead", line=getattr(uses[0], "lineno", f.lineno) if uses else f.lineno))
    # Variable._evaluate__ decides 'a domain was given' by the truthiness of the wrapper, and the wrapper is truthy when it has memoised
    # values OR holds a source - the (possibly exhausted) source is the only witness of a supplied domain none of whose members
    # was kept.  The source is therefore written by the constructor / the setter only; releasing or replacing it anywhere else
    # turns such a domain into 'no domain' once it has been enumerated.
    hi = db.cls("HashedIterable")
    bm = hi.methods.get("__bool__")
    reads_source = bm is not None and any(isinstance(x, ast.Attribute) and x.attr == "iterable" for x in own_nodes(bm.node))
    if reads_source:
        writers = []
        for f in db.all_functions():
            for a in own_nodes(f.node):
                tgts = a.targets if isinstance(a, ast.Assign) else ([a.target] if isinstance(a, (ast.AugAssign, ast.AnnAssign)) else
                                                                     (a.targets if isinstance(a, ast.Delete) else []))
                for t in tgts:
                    if isinstance(t, ast.Attribute) and t.attr == "iterable" and (f.cls is hi or "domain" in unparse(t.value).lower()):
                        writers.append((f, a))
        allowed = {"__post_init__", "set_iterable", "__init__"}
        bad = [(f, a) for f, a in writers if not (f.cls is hi and f.name in allowed)]
        for f, a in bad:
            out.append(inst("DOMAIN-PRESENCE", VIOLATION, f, f"{f.short}[writes the source of the domain wrapper]",
                            f"`{unparse(a)[:60]}` replaces the source of a domain outside its constructor / setter: a supplied domain none of whose members is an "
                            f"instance of the variable's type has no memoised value, only its (exhausted) source says that a domain was given - without "
                            f"it the next enumeration of the variable takes 'no domain given' and ranges over every instance ever constructed", line=a.lineno))
        if not bad:
            out.append(inst("DOMAIN-PRESENCE", HOLDS, hi.methods.get("set_iterable") or bm, "HashedIterable[the source is written by the constructor / setter only]",
                            f"{len(writers)} writer(s) of `iterable`, all in {sorted(allowed)}"))
    else:
        out.append(inst("DOMAIN-PRESENCE", INFO, hi, "HashedIterable[the source is written by the constructor / setter only]",
                        "the truthiness of the wrapper does not read the source"))
    return out


# ---------------------------------------------------------------------------------- PRED-ARGS
def rule_predicate_args(db: ProgramDB) -> List[Instance]:
    """Inside a block a @predicate call is recorded as keyword arguments: the positional arguments are zipped with parameter
    names.  They are bound by position, so the names are those of ALL positional parameters in order - a list filtered by
    'has no default' shifts or drops every argument given positionally for a parameter that has one."""
    out = []
    pred = db.fn("predicate:predicate")
    wrap = pred.nested.get("wrapper")
    if wrap is None:
        raise AnalysisError("predicate.predicate no longer defines wrapper")
    zips = [c for c in own_calls(wrap) if dotted(c.func) == "zip" and len(c.args) == 2]
    if not zips:
        raise AnalysisError("predicate.wrapper: positional arguments are not zipped with parameter names")
    defs = local_defs(wrap)
    for z in zips:
        names = z.args[0]
        if isinstance(names, ast.Name):
            ds = [d for d in defs.get(names.id, []) if isinstance(d, ast.AST)]
            names = ds[0] if ds else names
        bad = None
        src_ok = "signature" in unparse(names) or "parameters" in unparse(names) or "co_varnames" in unparse(names)
        if isinstance(names, (ast.ListComp, ast.GeneratorExp)):
            for g in names.generators:
                for t in g.ifs:
                    if any(isinstance(x, ast.Attribute) and x.attr == "default" for x in ast.walk(t)) or "empty" in unparse(t):
                        bad = t
        ok = src_ok and bad is None
        out.append(inst("PRED-ARGS", HOLDS if ok else VIOLATION, wrap, "predicate.wrapper[positional arguments bound by position]",
                        "positional arguments are zipped with the names of all positional parameters, in order" if ok else
                        (f"the names positional arguments are zipped with are filtered by `{unparse(bad)}`: an argument given "
                         f"positionally for a parameter that has a default (older_than(p, 3) for def older_than(p, limit=0)) is dropped, "
                         f"and the predicate runs with the default" if bad is not None else
                         "the names positional arguments are zipped with do not come from the function's signature"), line=z.lineno))
    return out


# ---------------------------------------------------------------------------------- DECL-FILTER (who may build a variable over a supplied domain)
DOMAIN_BUILDERS = {
    "extract_selected_variable_and_expression": "the constructor path of @symbol classes: filters the supplied domain by the runtime class (decided by the instances above)",
    "Variable._from_domain_": "internal helper, the class is taken from the first element unless given; not reachable from the declaration API",
    "Literal.__init__": "a literal ranges over exactly the one value it wraps",
}


def rule_domain_builders(db: ProgramDB) -> List[Instance]:
    """A variable declared with a type and a domain ranges only over the members of the domain that are instances of the type.
    The filter lives in one place - the constructor path of the decorated class.  Any other place that hands a domain to
    a Variable directly builds a variable that ranges over whatever the domain holds."""
    out = []
    var_cls = db.cls("Variable")
    n = 0
    for fn in db.all_functions():
        for c in own_calls(fn):
            t = resolve_call_target(db, fn, c)
            is_super_init = isinstance(c.func, ast.Attribute) and c.func.attr == "__init__" and isinstance(c.func.value, ast.Call) \
                and dotted(c.func.value.func) == "super" and fn.cls is not None and fn.cls.is_subclass_of(var_cls)
            if not ((isinstance(t, ClassInfo) and t.is_subclass_of(var_cls)) or is_super_init):
                continue
            kw = next((k for k in c.keywords if k.arg == "_domain_source_"), None)
            if kw is None:
                continue
            n += 1
            why = DOMAIN_BUILDERS.get(fn.short)
            if why is not None:
                out.append(inst("DECL-FILTER", HOLDS, fn, f"{fn.short}[builds a variable over a domain]", f"confirmed builder: {why}", line=c.lineno))
                continue
            # elsewhere: accepted only behind an isinstance filter by the type the variable is built for
            amap = bind_args(var_cls.init_params(), c) if not is_super_init else {}
            ty = unparse(amap["_type_"]) if "_type_" in amap else None
            filtered = ty is not None and any(isinstance(x, ast.Call) and dotted(x.func) == "isinstance" and len(x.args) == 2 and unparse(x.args[1]) == ty
                                              for x in own_nodes(fn.node))
            out.append(inst("DECL-FILTER", HOLDS if filtered else VIOLATION, fn, f"{fn.short}[builds a variable over a domain]",
                            f"the domain is filtered by isinstance(…, {ty}) in this function" if filtered else
                            f"`{unparse(c)[:90]}` hands a domain to a Variable directly, without the isinstance filter the constructor of a decorated class "
                            f"applies: the variable ranges over members of the domain that are not instances of its type "
                            f"(let(Cat, domain=[cat, dog], name='c') yields the dog)", line=c.lineno))
    if n < 2:
        raise AnalysisError(f"only {n} construction(s) of a Variable over a domain found")
    return out


# ---------------------------------------------------------------------------------- KWARGS-NAMESPACE
def rule_kwargs_namespace(db: ProgramDB) -> List[Instance]:
    """On the constructor path of @symbol classes and @predicate functions `**kwargs` carries the USER's field / parameter names.  A
    function that takes them next to named parameters of its own shares one namespace with them: a field called like one of
    those parameters (`domain`, `function`, …) is 'a second value for the argument'.  The own parameters are positional-only (or
    the function takes nothing but `*args, **kwargs`)."""
    out = []
    carriers = []
    for q in ("predicate:symbol.<locals>.symbolic_new", "predicate:symbol.<locals>.hybrid_new", "predicate:update_domain_and_kwargs_from_args",
              "predicate:extract_selected_variable_and_expression", "predicate:instantiate_class_and_update_cache", "predicate:predicate.<locals>.wrapper"):
        f = db.fn(q, required=False)
        if f is None:
            raise AnalysisError(f"anchor vanished: {q}")
        carriers.append(f)
    # methods of Variable that are handed the user's keyword arguments
    var = db.cls("Variable")
    for m in var.methods.values():
        if m.cls is var and m.node.args.kwarg is not None:
            carriers.append(m)
    for f in carriers:
        a = f.node.args
        if a.kwarg is None:
            continue
        named = [x.arg for x in a.args if x.arg not in ("self", "cls")] + [x.arg for x in a.kwonlyargs]
        ok = not named
        out.append(inst("KWARGS-NAMESPACE", HOLDS if ok else VIOLATION, f, f"{f.short}[own parameters apart from the user's names]",
                        "its own parameters are positional-only" if ok else
                        f"{f.short} takes `{', '.join(named)}` by name next to `**{a.kwarg.arg}`, which carries the user's field names: a class with a field called "
                        f"`{named[0]}` raises `got multiple values for argument '{named[0]}'` in the predicate form (Zone(From(zs), domain='y')), where the explicit "
                        f"form works", line=f.lineno))
    if len(out) < 6:
        raise AnalysisError("fewer carriers of user keyword arguments than confirmed by reading")
    return out


# ---------------------------------------------------------------------------------- COLLECTION-TABLE
def rule_collection_table(db: ProgramDB) -> List[Instance]:
    """Which objects are collections of values and which are single values is one table, `is_iterable`: it decides whether a
    supplied domain is filtered member by member or is a domain of one value (symbolic_new, Variable._update_domain_), and whether
    a flattened value is spread.  The table is: has `__iter__`, and is not a string / bytes / a class.  Decided as a truth table of
    the returned expression over its atoms: it has to be exactly `iter and not excluded` whatever the other atoms say - an object
    that is merely indexable (the old sequence protocol `__getitem__`, which iter() would accept too) is ONE value."""
    from ..boolexpr import eval_bool
    import itertools
    out = []
    fn = db.fn("utils:is_iterable")
    p = fn.positional_params[0]
    rets = [n for n in own_nodes(fn.node) if isinstance(n, ast.Return)]
    if len(rets) != 1 or rets[0].value is None:
        raise AnalysisError("is_iterable: expected one returned expression")
    e = rets[0].value
    atoms: List[str] = []
    excluded: Set[str] = set()

    def atom_of(x):
        a = None
        if isinstance(x, ast.Call) and dotted(x.func) == "hasattr" and len(x.args) == 2 and unparse(x.args[0]) == p and isinstance(x.args[1], ast.Constant):
            a = "iter" if x.args[1].value == "__iter__" else f"has:{x.args[1].value}"
        elif isinstance(x, ast.Call) and dotted(x.func) == "isinstance" and len(x.args) == 2 and unparse(x.args[0]) == p:
            names = [unparse(t) for t in (x.args[1].elts if isinstance(x.args[1], ast.Tuple) else [x.args[1]])]
            if any(n.split(".")[-1] in ("Iterable",) for n in names) and len(names) == 1:
                a = "iter"
            else:
                excluded.update(n.split(".")[-1] for n in names)
                a = "excluded"
        elif isinstance(x, (ast.Call, ast.Name, ast.Attribute, ast.Compare)):
            a = f"other:{unparse(x)}"
        if a is not None and a not in atoms:
            atoms.append(a)
        return a

    class _Any(dict):
        def __missing__(self, k):
            return True
    eval_bool(e, atom_of, _Any())
    eval_bool(e, atom_of, {a: False for a in atoms} if atoms else {})
    if "iter" not in atoms:
        out.append(inst("COLLECTION-TABLE", VIOLATION, fn, "is_iterable[table]", f"`{unparse(e)[:100]}` does not ask for `__iter__`", line=rets[0].lineno))
        return out
    bad = None
    for vals in itertools.product([False, True], repeat=len(atoms)):
        env = dict(zip(atoms, vals))
        got = bool(eval_bool(e, atom_of, env))
        want = env["iter"] and not env.get("excluded", False)
        if got != want:
            bad = (env, got)
            break
    out.append(inst("COLLECTION-TABLE", VIOLATION if bad else HOLDS, fn, "is_iterable[table]",
                    "a collection is what has `__iter__` and is not an excluded scalar type, whatever else holds" if not bad else
                    f"`{unparse(e)[:120]}` answers {bad[1]} for {', '.join(k + '=' + str(v) for k, v in bad[0].items())}: "
                    + ("an object that is not iterable by `__iter__` (an indexable record, a class with `__getitem__` only) is taken for a collection of values - given as a "
                       "domain it is no longer a domain of one value but is spread into what its `[0], [1], …` return, and the type filter runs over those"
                       if bad[1] else "an iterable is taken for a single value: a supplied domain is not filtered member by member"), line=rets[0].lineno))
    need = {"str", "type", "bytes", "bytearray"}
    out.append(inst("COLLECTION-TABLE", HOLDS if need <= excluded else VIOLATION, fn, "is_iterable[strings and classes are values]",
                    f"excluded: {sorted(excluded)}" if need <= excluded else
                    f"{sorted(need - excluded)} no longer excluded: a string value (a field constraint, a flattened element) is spread into its characters / a class into nothing",
                    line=rets[0].lineno))
    containers = {"dict", "list", "tuple", "set", "frozenset", "deque", "range", "Mapping", "MutableMapping", "Sequence", "MutableSequence", "Set", "MutableSet",
                  "Collection", "Iterable", "Iterator", "Generator", "GeneratorType", "OrderedDict", "defaultdict", "KeysView", "ValuesView", "ItemsView", "dict_keys",
                  "dict_values", "HashedIterable"}
    wrong = sorted(excluded & containers)
    out.append(inst("COLLECTION-TABLE", VIOLATION if wrong else HOLDS, fn, "is_iterable[containers are collections]",
                    f"{wrong} excluded from the collections: a value of that type is one value - flatten hands out the container itself (one row, also for an empty one) "
                    f"instead of one row per element, and a domain given as such a container is a domain of one value" if wrong else
                    "no container type is among the excluded scalar types", line=rets[0].lineno))
    return out


# ---------------------------------------------------------------------------------- ARG-NOT-MUTATED
_MUTATORS = ("append", "extend", "insert", "pop", "remove", "sort", "clear", "update", "setdefault", "reverse", "popitem", "add", "discard")
_FRESH = ("list", "dict", "set", "tuple", "copy", "deepcopy", "sorted")


def rule_arg_not_mutated(db: ProgramDB) -> List[Instance]:
    """What the user hands to the functions that build a query - the list of selected variables, a domain, a dict of field values -
    stays the user's: a query-building function that rewrites such a collection in place (a predicate-form term replaced by its
    variable, an item appended) changes what the caller passes to the NEXT query built from the same object.  Path rule: wherever
    a parameter (not *args / **kwargs, which Python builds per call) is stored into by subscript or a mutating method, every path
    from the function entry to that statement passes an assignment that rebinds the name to a fresh collection."""
    from .lazy import CONSTRUCTION_FUNCS
    from ..cfg import CFG
    out = []
    n_fn = 0
    for q in CONSTRUCTION_FUNCS:
        fn = db.fn(q, required=False)
        if fn is None or fn.module not in ("entity", "predicate"):
            continue
        n_fn += 1
        a = fn.node.args
        params = {x.arg for x in a.posonlyargs + a.args + a.kwonlyargs} - {"self", "cls"}
        muts = []
        for n in own_nodes(fn.node):
            if isinstance(n, (ast.Assign, ast.AugAssign)):
                for t in (n.targets if isinstance(n, ast.Assign) else [n.target]):
                    if isinstance(t, ast.Subscript) and isinstance(t.value, ast.Name) and t.value.id in params:
                        muts.append((t.value.id, n))
            elif isinstance(n, ast.Delete):
                for t in n.targets:
                    if isinstance(t, ast.Subscript) and isinstance(t.value, ast.Name) and t.value.id in params:
                        muts.append((t.value.id, n))
            elif isinstance(n, ast.Call) and isinstance(n.func, ast.Attribute) and n.func.attr in _MUTATORS and isinstance(n.func.value, ast.Name) \
                    and n.func.value.id in params:
                muts.append((n.func.value.id, n))
        if not muts:
            out.append(inst("ARG-NOT-MUTATED", HOLDS, fn, f"{fn.short}[arguments]", "no parameter is written into"))
            continue
        cfg = CFG(fn)
        for name, node in muts:
            st = node
            while not isinstance(st, ast.stmt):
                st = db.parent(st)
            goal = {nd.id for nd in cfg.nodes if nd.ast is st or (nd.stmt is st and nd.kind in ("stmt", "test", "for"))}
            if not goal:
                raise AnalysisError(f"{fn.short}: statement of `{unparse(node)[:40]}` not found in the CFG")

            def rebinds_fresh(nd, name=name):
                x = nd.ast
                if nd.kind != "stmt" or not isinstance(x, ast.Assign) or not any(isinstance(t, ast.Name) and t.id == name for t in x.targets):
                    return False
                v = x.value
                return isinstance(v, (ast.List, ast.Dict, ast.Set, ast.ListComp, ast.DictComp, ast.SetComp)) or (
                    isinstance(v, ast.Call) and (dotted(v.func) or "").split(".")[-1] in _FRESH) or (
                    isinstance(v, ast.Call) and call_attr(v) == "copy")
            path = cfg.find_path(cfg.entry, lambda nd: nd.id in goal, kinds=("n",), blocked=rebinds_fresh)
            out.append(inst("ARG-NOT-MUTATED", VIOLATION if path is not None else HOLDS, fn, f"{fn.short}[{name} written in place]",
                            f"`{unparse(node)[:60]}` is only reached after `{name}` was rebound to a fresh collection" if path is None else
                            f"`{unparse(node)[:60]}` writes into the object the caller passed as `{name}` on the path {' '.join(cfg.describe_path(path)[-4:])}: "
                            f"the caller's own list / dict is changed, and the next query built from the same object is built from the changed one "
                            f"(a predicate-form term in a reused list of selected variables has lost its conditions)", line=node.lineno))
    if n_fn < 4:
        raise AnalysisError("query-building functions of entity / predicate not found")
    return out

