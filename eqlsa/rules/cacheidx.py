"""C20 (index clearing / no aliasing of yielded bindings) and C05 (the caching switch governs reads and writes alike)."""
from __future__ import annotations

import ast
from typing import Dict, List, Optional, Set, Tuple

from ..db import ProgramDB, FuncInfo, ClassInfo, AnalysisError, unparse, own_nodes, dotted
from ..cfg import CFG, Node
from ..facts import own_calls, call_attr, call_name, local_defs, resolve_call_target, is_cache_switch_call, bind_args, fn_params
from ..framework import inst, HOLDS, VIOLATION, UNDECIDED, INFO, Instance
from ..boolexpr import guards_of, guard_table
from .history import BUILTIN_MUTATORS, _mutators_of_type, _field_types, _cache_receivers, coverage_writers
from .entries import is_eval_method_name


def fields_mutated_by(db: ProgramDB, cls: ClassInfo, m: FuncInfo) -> Dict[str, List[ast.AST]]:
    """self fields of cls whose content method m mutates (aliases through locals followed)."""
    defs = local_defs(m)
    roots: Dict[str, Set[str]] = {}     # local name -> set of self fields it may alias into

    def fields_of(e: ast.AST) -> Set[str]:
        out = set()
        while isinstance(e, ast.Subscript):
            e = e.value
        if isinstance(e, ast.Call) and isinstance(e.func, ast.Attribute) and e.func.attr in ("get", "setdefault"):
            return fields_of(e.func.value)
        if isinstance(e, ast.Attribute) and isinstance(e.value, ast.Name) and e.value.id == "self":
            out.add(e.attr)
        elif isinstance(e, ast.Name) and e.id in roots:
            out |= roots[e.id]
        return out

    changed = True
    while changed:
        changed = False
        for name, vals in defs.items():
            for v in vals:
                if isinstance(v, ast.AST):
                    fs = fields_of(v)
                    if fs - roots.get(name, set()):
                        roots.setdefault(name, set()).update(fs)
                        changed = True
    out: Dict[str, List[ast.AST]] = {}
    for n in own_nodes(m.node):
        if isinstance(n, (ast.Assign, ast.AugAssign)):
            for t in (n.targets if isinstance(n, ast.Assign) else [n.target]):
                if isinstance(t, ast.Subscript):
                    for f in fields_of(t.value):
                        out.setdefault(f, []).append(n)
                elif isinstance(t, ast.Attribute) and isinstance(t.value, ast.Name) and t.value.id == "self" \
                        and isinstance(n, ast.AugAssign):
                    pass   # counters
        elif isinstance(n, ast.Call) and isinstance(n.func, ast.Attribute):
            recv_fields = fields_of(n.func.value)
            for f in recv_fields:
                muts = set(BUILTIN_MUTATORS)
                for t in _field_types(db, cls, f):
                    muts |= _mutators_of_type(db, t)
                if n.func.attr in muts:
                    out.setdefault(f, []).append(n)
    return out


def fields_cleared_by(m: FuncInfo) -> Set[str]:
    out = set()
    for n in own_nodes(m.node):
        if isinstance(n, ast.Call) and call_attr(n) == "clear":
            r = n.func.value
            if isinstance(r, ast.Attribute) and isinstance(r.value, ast.Name) and r.value.id == "self":
                out.add(r.attr)
        elif isinstance(n, ast.Assign):
            for t in n.targets:
                if isinstance(t, ast.Attribute) and isinstance(t.value, ast.Name) and t.value.id == "self":
                    v = n.value
                    if isinstance(v, (ast.Dict, ast.List, ast.Set)) or (isinstance(v, ast.Call) and not v.args):
                        out.add(t.attr)
    return out


def rule_clear_complete(db: ProgramDB) -> List[Instance]:
    out = []
    ic = db.cls("IndexedCache")
    ins, clr = ic.methods.get("insert"), ic.methods.get("clear")
    if ins is None or clr is None:
        raise AnalysisError("IndexedCache.insert/clear not found")
    written = fields_mutated_by(db, ic, ins)
    cleared = fields_cleared_by(clr)
    if len(written) < 2:
        raise AnalysisError(f"IndexedCache.insert: found writes to {sorted(written)} only")
    for f, sites in sorted(written.items()):
        ok = f in cleared
        out.append(inst("CLEAR-COMPLETE", HOLDS if ok else VIOLATION, clr, f"IndexedCache.clear[{f}]",
                        f"insert() stores into `{f}` (`{unparse(sites[0])[:50]}`) and clear() empties it" if ok else
                        f"insert() stores into `{f}` (`{unparse(sites[0])[:50]}`) but clear() leaves it: a cleared index "
                        f"still returns those entries", line=clr.lineno))
    # containers clear() relies on must themselves clear everything they hold
    for tname in ("SeenSet", "HashedIterable"):
        c = db.cls(tname)
        cm = c.methods.get("clear")
        adders = [m for n, m in c.methods.items() if n in ("add", "check", "update", "__setitem__", "__iter__", "__getitem__")]
        w: Dict[str, List] = {}
        for a in adders:
            for f, s in fields_mutated_by(db, c, a).items():
                w.setdefault(f, []).extend(s)
            for n in own_nodes(a.node):
                if isinstance(n, ast.Assign):
                    for t in n.targets:
                        if isinstance(t, ast.Attribute) and isinstance(t.value, ast.Name) and t.value.id == "self":
                            w.setdefault(t.attr, []).append(n)
        if cm is None:
            out.append(inst("CLEAR-COMPLETE", VIOLATION, c, f"{tname}.clear", f"{tname} has no clear()"))
            continue
        cl = fields_cleared_by(cm)
        for n in own_nodes(cm.node):
            if isinstance(n, ast.Assign):
                for t in n.targets:
                    if isinstance(t, ast.Attribute) and isinstance(t.value, ast.Name) and t.value.id == "self":
                        cl.add(t.attr)
        for f in sorted(w):
            if f == "iterable":
                continue      # the lazily consumed source is not content of the store
            ok = f in cl
            out.append(inst("CLEAR-COMPLETE", HOLDS if ok else VIOLATION, cm, f"{tname}.clear[{f}]",
                            f"`{f}` is written by {tname}'s mutators and reset by clear()" if ok else
                            f"`{f}` is written by {tname}'s mutators but not reset by clear()", line=cm.lineno))
    return out


def rule_result_no_alias(db: ProgramDB) -> List[Instance]:
    """In retrieve(): a binding dict that is extended inside a loop over cache branches and handed on (yielded /
    passed down) must be a fresh copy per branch, else sibling entries share and overwrite one binding."""
    out = []
    ic = db.cls("IndexedCache")
    m = ic.methods.get("retrieve")
    if m is None:
        raise AnalysisError("IndexedCache.retrieve not found")
    n_sites = 0
    for loop in [n for n in own_nodes(m.node) if isinstance(n, ast.For)]:
        for n in ast.walk(loop):
            if isinstance(n, ast.Assign):
                for t in n.targets:
                    if isinstance(t, ast.Subscript) and isinstance(t.value, ast.Name):
                        name = t.value.id
                        n_sites += 1
                        # defined inside this loop body from a copy?
                        fresh = False
                        for d in ast.walk(loop):
                            if isinstance(d, ast.Assign) and any(isinstance(x, ast.Name) and x.id == name for x in d.targets):
                                v = d.value
                                if isinstance(v, ast.Call) and dotted(v.func) in ("copy", "dict", "copy.copy") or \
                                        (isinstance(v, ast.Call) and call_attr(v) == "copy") or \
                                        (isinstance(v, ast.Dict) and any(k is None for k in v.keys)):
                                    fresh = True
                        out.append(inst("RESULT-NO-ALIAS", HOLDS if fresh else VIOLATION, m,
                                        f"IndexedCache.retrieve[{name}[…] = … in loop]",
                                        f"`{unparse(n)}` extends a per-branch copy" if fresh else
                                        f"`{unparse(n)}` extends a binding shared by all branches of the loop: every "
                                        f"retrieved entry would end up paired with the last branch's key", line=n.lineno))
    # the accumulator is initialised from a copy of the lookup (the caller's dict is not the accumulator)
    inits = [n for n in own_nodes(m.node) if isinstance(n, ast.Assign) and any(
        isinstance(t, ast.Name) and t.id == "result" for t in n.targets)]
    for n in inits:
        v = n.value
        ok = isinstance(v, ast.Call) and (dotted(v.func) in ("copy", "dict", "copy.copy") or call_attr(v) == "copy")
        out.append(inst("RESULT-NO-ALIAS", HOLDS if ok else VIOLATION, m, "IndexedCache.retrieve[result initialised]",
                        f"`{unparse(n)}` starts from a copy of the lookup" if ok else
                        f"`{unparse(n)}` aliases the caller's lookup dict", line=n.lineno))
    if n_sites == 0:
        raise AnalysisError("IndexedCache.retrieve: no per-branch extension of the binding found")
    # what is handed out per stored entry is a dict of its own: the accumulator is shared by all entries reached through levels
    # whose key the lookup binds, and a consumer extends a row before it pulls the next one.

    def is_fresh(v: ast.AST) -> bool:
        return (isinstance(v, ast.Call) and (dotted(v.func) in ("copy", "dict", "copy.copy", "copy.deepcopy", "deepcopy") or call_attr(v) == "copy")) \
            or isinstance(v, (ast.Dict, ast.DictComp))
    n_y = 0
    for loop in [n for n in own_nodes(m.node) if isinstance(n, ast.For)]:
        for y in [x for x in ast.walk(loop) if isinstance(x, ast.Yield) and isinstance(x.value, ast.Tuple) and x.value.elts]:
            e = y.value.elts[0]
            if isinstance(e, ast.Dict) and not e.keys:
                continue                        # the flat store: an empty binding per value
            n_y += 1
            if is_fresh(e):
                ok, why = True, f"`{unparse(e)}` is a new dict per entry"
            elif isinstance(e, ast.Name):
                defs = [d for d in ast.walk(loop) if isinstance(d, ast.Assign) and any(isinstance(t, ast.Name) and t.id == e.id for t in d.targets)]
                stale = [d for d in defs if not is_fresh(d.value)]
                ok = bool(defs) and not stale
                why = (f"`{e.id}` is a new dict on every path of the loop body" if ok else
                       f"`{e.id}` is the accumulator itself on the path through `{unparse(stale[0]) if stale else 'no assignment in the loop'}`: every entry "
                       f"reached through levels whose key the lookup binds is handed out with the same dict, and a consumer that extends one row "
                       f"changes the others")
            else:
                ok, why = False, f"`{unparse(e)}` is not a new dict"
            out.append(inst("RESULT-NO-ALIAS", HOLDS if ok else VIOLATION, m, "IndexedCache.retrieve[binding handed out per entry]", why, line=y.lineno))
    if n_y == 0:
        raise AnalysisError("IndexedCache.retrieve: no entry handed out inside the loop over the children found")
    return out


# ---------------------------------------------------------------------------------- C05
def _ce_atom(db, fn):
    def atom_of(e: ast.AST) -> Optional[str]:
        if isinstance(e, ast.Call):
            if is_cache_switch_call(db, fn, e):
                return "ce"
        if isinstance(e, (ast.BoolOp, ast.IfExp, ast.Constant)) or (isinstance(e, ast.UnaryOp) and isinstance(e.op, ast.Not)):
            return None
        return "x:" + unparse(e)
    return atom_of


def _guard_implies_ce(db, fn: FuncInfo, site: ast.AST) -> Optional[bool]:
    """True if every way of reaching `site` inside fn requires is_caching_enabled() to be true."""
    g = guards_of(site, fn.node.body)
    if g is None:
        return None
    # a site inside the test of an `if` (… and X.check(…)) is guarded by the conjuncts to its left
    p = db.parent(site)
    extra = []
    child = site
    while p is not None and not isinstance(p, ast.stmt):
        if isinstance(p, ast.BoolOp) and isinstance(p.op, ast.And):
            idx = [i for i, v in enumerate(p.values) if v is child or any(x is child for x in ast.walk(v))]
            if idx:
                for v in p.values[:idx[0]]:
                    extra.append((v, True))
        child = p
        p = db.parent(p)
    g = list(g) + extra
    atom_of = _ce_atom(db, fn)
    atoms = ["ce"]
    for t, _ in g:
        for x in ast.walk(t):
            a = atom_of(x)
            if a and a not in atoms and a != "ce" and _is_atom_position(t, x, atom_of):
                atoms.append(a)
    if len(atoms) > 10:
        raise AnalysisError("guard too large")
    table = guard_table(g, atom_of, atoms)
    return all((not holds) or vals[0] for vals, holds in table.items())


def _is_atom_position(root, x, atom_of) -> bool:
    # x is a maximal non-boolean sub-expression of root
    def rec(e):
        if e is x:
            return True
        if atom_of(e) is not None:
            return False
        return any(rec(c) for c in ast.iter_child_nodes(e))
    return rec(root)


def rule_cache_switch(db: ProgramDB) -> List[Instance]:
    out = []
    bo = db.cls("BinaryOperator")
    w = coverage_writers(db)
    # write gate(s)
    gates = []
    for c in bo.all_subclasses():
        for m in c.methods.values():
            recv = _cache_receivers(db, m)
            for call in own_calls(m):
                f = call.func
                if isinstance(f, ast.Attribute) and f.attr == "insert" and unparse(f.value) in recv:
                    gates.append((m, call, _guard_implies_ce(db, m, call)))
    if not gates:
        raise AnalysisError("no result-cache write (IndexedCache.insert on an operator's cache) found")
    writes_guarded = all(g is True for _, _, g in gates)
    for m, call, g in gates:
        out.append(inst("CACHE-SWITCH", HOLDS, m, f"{m.short}[write gate]",
                        f"`{unparse(call)[:60]}` is {'only reached when caching is enabled' if g else 'not conditioned on the switch'}",
                        line=call.lineno))
    # read sites in evaluation code
    read_names = {"check", "retrieve"}
    helper_reads = set()
    for c in bo.all_subclasses():
        for m in c.methods.values():
            if is_eval_method_name(m.name):
                continue
            recv = _cache_receivers(db, m)
            for call in own_calls(m):
                f = call.func
                if isinstance(f, ast.Attribute) and f.attr in read_names and unparse(f.value) in recv:
                    helper_reads.add(m.name)
    n_reads = 0
    se = db.cls("SymbolicExpression")
    for c in se.all_subclasses():
        for m in c.methods.values():
            if not (m.is_generator and (is_eval_method_name(m.name) or m.name.startswith("evaluate"))):
                continue
            recv = _cache_receivers(db, m)
            for call in own_calls(m):
                f = call.func
                if not isinstance(f, ast.Attribute):
                    continue
                is_read = (f.attr in read_names and unparse(f.value) in recv) or \
                          (f.attr in helper_reads and isinstance(f.value, ast.Name) and f.value.id == "self")
                if not is_read:
                    continue
                n_reads += 1
                g = _guard_implies_ce(db, m, call)
                key = f"{m.short}[{unparse(call)[:50]}]"
                if g is None:
                    out.append(inst("CACHE-SWITCH", UNDECIDED, m, key, "cannot determine the guards of this cache read",
                                    line=call.lineno))
                elif g or not writes_guarded:
                    out.append(inst("CACHE-SWITCH", HOLDS, m, key,
                                    "cache read only when caching is enabled" if g else
                                    "reads and writes are both unconditional (the switch is a no-op)", line=call.lineno))
                else:
                    out.append(inst("CACHE-SWITCH", VIOLATION, m, key,
                                    "the cache is consulted regardless of the switch while writes are suppressed when "
                                    "caching is disabled: check({}) marks everything as covered on first use, so with "
                                    "caching disabled a re-evaluated operator serves every later request from an empty "
                                    "cache", line=call.lineno))
    if n_reads == 0:
        raise AnalysisError("no result-cache read site found in evaluation generators")
    return out


# ---------------------------------------------------------------------------------- CACHE-FLAG-CONSISTENT
def rule_cache_flag_consistent(db: ProgramDB) -> List[Instance]:
    """The truth flag stored with a cached row is the flag the row is emitted with: between the cache write and the yield
    of that row, `self._is_false_` is not re-assigned (otherwise a cache hit replays the row with another row's flag)."""
    out = []
    bo = db.cls("BinaryOperator")
    # helpers that store self._is_false_ into the cache
    storing = set()
    inserts = 0
    for c in [bo] + bo.all_subclasses():
        for m in c.methods.values():
            if m.cls is not c:
                continue
            recv = _cache_receivers(db, m)
            for call in own_calls(m):
                if call_attr(call) == "insert" and unparse(call.func.value) in recv:
                    inserts += 1
                    stored = call.args[1] if len(call.args) > 1 else next((k.value for k in call.keywords if k.arg == "output"), None)
                    if isinstance(stored, ast.Attribute) and stored.attr == "_is_false_" and isinstance(stored.value, ast.Name) and stored.value.id == "self":
                        storing.add(m.name)
                    else:
                        out.append(inst("CACHE-FLAG-CONSISTENT", VIOLATION, m, f"{m.short}[stored flag]",
                                        f"`{unparse(call)[:70]}` stores `{unparse(stored) if stored is not None else 'nothing'}` with the row, not the "
                                        f"node's truth flag `self._is_false_`: a cache hit replays the row with a flag it never had", line=call.lineno))
    if not inserts:
        raise AnalysisError("no result-cache write found on BinaryOperator")
    if not storing:
        return out
    n = 0
    se = db.cls("SymbolicExpression")
    for c in se.all_subclasses():
        for m in c.methods.values():
            if not m.is_generator:
                continue
            calls = [x for x in own_calls(m) if call_attr(x) in storing and isinstance(x.func.value, ast.Name) and x.func.value.id == "self"]
            if not calls:
                continue
            cfg = CFG(m)
            for call in calls:
                nodes = [nd for nd in cfg.nodes if not nd.region and nd.ast is not None and nd.kind == "stmt"
                         and any(x is call for x in ast.walk(nd.ast))]
                for nd in nodes:
                    n += 1

                    def is_flag_assign(x: Node) -> bool:
                        a = x.ast
                        return x.kind == "stmt" and isinstance(a, (ast.Assign, ast.AugAssign)) and any(
                            isinstance(t, ast.Attribute) and t.attr == "_is_false_" and isinstance(t.value, ast.Name) and t.value.id == "self"
                            for t in (a.targets if isinstance(a, ast.Assign) else [a.target]))
                    # path from the write to an assignment of the flag that does not pass a yield first
                    p = cfg.find_path(nd.id, is_flag_assign, kinds=("n",), blocked=lambda x: x.has_yield or x.kind == "for")
                    key = f"{m.short}[{unparse(call)[:50]}]"
                    dup = [k for k in out if k.construct == key]
                    if dup:
                        key += f"#{len(dup) + 1}"
                    out.append(inst("CACHE-FLAG-CONSISTENT", HOLDS if p is None else VIOLATION, m, key,
                                    "the row is emitted with the truth flag that was stored with it" if p is None else
                                    f"the truth flag is re-assigned (line {cfg.nodes[p[-1].dst].lineno}) after the row was stored "
                                    f"and before it is emitted: the cache keeps the previous row's flag, so a cache hit replays "
                                    f"this row as true/false wrongly (results differ with caching on/off and on re-evaluation)",
                                    line=call.lineno))
    if n == 0:
        raise AnalysisError("no cache-storing call site found in evaluation generators")
    # read side: a replay loop `for row, flag in <cache>.retrieve(...)` that hands rows on sets the node's flag from the
    # stored one before each row it yields
    for c in [bo] + bo.all_subclasses():
        for m in c.methods.values():
            if not m.is_generator or m.cls is not c:
                continue
            for loop in [x for x in own_nodes(m.node) if isinstance(x, ast.For)]:
                if not (isinstance(loop.iter, ast.Call) and call_attr(loop.iter) == "retrieve" and isinstance(loop.target, ast.Tuple)
                        and len(loop.target.elts) == 2 and isinstance(loop.target.elts[1], ast.Name)):
                    continue
                flag = loop.target.elts[1].id
                cfg = CFG(m)
                head = [nd for nd in cfg.nodes if nd.kind == "for" and nd.stmt is loop]
                if not head:
                    continue
                for y in [nd for nd in cfg.nodes if nd.has_yield and nd.ast is not None and any(x is nd.ast or True for x in [0])
                          and any(st is nd.stmt or any(z is nd.stmt for z in ast.walk(st)) for st in loop.body)]:
                    yv = next((x for x in ast.walk(y.ast) if isinstance(x, ast.Yield)), None)
                    if yv is None or yv.value is None:
                        continue
                    if flag in {z.id for z in ast.walk(yv.value) if isinstance(z, ast.Name)}:
                        continue       # the flag travels with the row: the consumer decides

                    def sets_flag(nd: Node) -> bool:
                        a = nd.ast
                        return nd.kind == "stmt" and isinstance(a, ast.Assign) and isinstance(a.value, ast.Name) and a.value.id == flag and any(
                            isinstance(t, ast.Attribute) and t.attr == "_is_false_" and isinstance(t.value, ast.Name) and t.value.id == "self"
                            for t in a.targets)
                    p = cfg.find_path(head[0].id, lambda nd: nd.id == y.id, kinds=("n",), blocked=sets_flag)
                    out.append(inst("CACHE-FLAG-CONSISTENT", HOLDS if p is None else VIOLATION, m, f"{m.short}[replayed row carries its flag]",
                                    f"`self._is_false_ = {flag}` precedes every replayed row" if p is None else
                                    f"a row replayed from the cache is handed on without `self._is_false_` being set from the stored flag "
                                    f"`{flag}`: the parent reads the flag of whatever row was produced before", line=y.lineno))
    return out


# ---------------------------------------------------------------------------------- INSERT-RETRIEVABLE
def rule_insert_retrievable(db: ProgramDB) -> List[Instance]:
    """Writer/reader agreement of the index: whatever insert(index=True) stores must be stored where
    retrieve(from_index=True) looks.  Decided by abstract interpretation of insert() for index=True and an empty /
    non-empty assignment: the index store must be written, the flat store must not be the only one written."""
    from ..abseval import AbsEval, State, const, TOP, TRUE, FALSE, EMPTY
    out = []
    ic = db.cls("IndexedCache")
    ins, ret = ic.methods.get("insert"), ic.methods.get("retrieve")
    if ins is None or ret is None:
        raise AnalysisError("IndexedCache.insert/retrieve not found")
    cfg = CFG(ins)
    written = fields_mutated_by(db, ic, ins)
    idx_sites = {id(n) for f in ("cache",) for n in written.get(f, [])}
    flat_sites = {id(n) for n in written.get("flat_cache", [])}
    if not idx_sites:
        raise AnalysisError("IndexedCache.insert: no write into the index store found")
    pa = "assignment" if "assignment" in ins.params else ins.positional_params[1]
    for shape, val in (("empty assignment (binds none of the keys)", EMPTY), ("non-empty assignment", ("obj", "truthy"))):
        ev = AbsEval(db, ins, cfg)
        IN = ev.run(State({"index": TRUE, pa: val}), kinds=("n",))
        reach = {nid for nid, sts in IN.items() if sts}

        def touches(sites) -> bool:
            for n in cfg.nodes:
                if n.id in reach and n.ast is not None:
                    for x in ast.walk(n.ast) if not isinstance(n.ast, (ast.For, ast.If, ast.While)) else []:
                        if id(x) in sites:
                            return True
                    if id(n.ast) in sites:
                        return True
            return False
        w_idx, w_flat = touches(idx_sites), touches(flat_sites)
        ok = w_idx and not w_flat
        out.append(inst("INSERT-RETRIEVABLE", HOLDS if ok else VIOLATION, ins, f"IndexedCache.insert[index=True, {shape.split(' (')[0]}]",
                        f"{shape}: stored in the index, where retrieve() looks" if ok else
                        f"{shape}: index written={w_idx}, flat store written={w_flat}; retrieve(from_index=True) reads only the "
                        f"index, while the coverage check treats an empty assignment as covering every lookup: the output is "
                        f"claimed covered and never returned"))
    # a key is filed under the wildcard exactly when the binding does not bind it - a bound value that is falsy (0, '', None, False)
    # is a value like any other
    ins_m = db.cls("IndexedCache").methods.get("insert")
    if ins_m is not None:
        ap_ = ins_m.positional_params[1] if len(ins_m.positional_params) > 1 else "assignment"
        n_w = 0
        for x in own_nodes(ins_m.node):
            if isinstance(x, ast.BoolOp) and isinstance(x.op, ast.Or) and any(unparse(v) in ("All", "ALL") for v in x.values) and \
                    any(ap_ in unparse(v) for v in x.values):
                n_w += 1
                out.append(inst("INSERT-RETRIEVABLE", VIOLATION, ins_m, "IndexedCache.insert[wildcard exactly for unbound keys]",
                                f"`{unparse(x)}` files a key under the wildcard when its value is FALSY, not when it is unbound: a binding with 0 / '' / None / False "
                                f"for a key is returned for lookups with any other value, lookups for it miss, and two bindings that differ only there "
                                f"overwrite each other", line=x.lineno))
            elif isinstance(x, ast.Call) and call_attr(x) == "get" and unparse(x.func.value) == ap_ and len(x.args) == 2 and unparse(x.args[1]) in ("All", "ALL"):
                n_w += 1
                out.append(inst("INSERT-RETRIEVABLE", HOLDS, ins_m, "IndexedCache.insert[wildcard exactly for unbound keys]",
                                f"`{unparse(x)}`: the wildcard stands in only when the key is absent", line=x.lineno))
            elif isinstance(x, ast.IfExp) and unparse(x.orelse) in ("All", "ALL") and isinstance(x.test, ast.Compare) and isinstance(x.test.ops[0], ast.In):
                n_w += 1
                out.append(inst("INSERT-RETRIEVABLE", HOLDS, ins_m, "IndexedCache.insert[wildcard exactly for unbound keys]",
                                f"`{unparse(x)[:60]}`: the wildcard stands in only when the key is absent", line=x.lineno))
        if n_w == 0:
            raise AnalysisError("IndexedCache.insert: the place where an unbound key is filed under the wildcard was not found")
    return out


# ---------------------------------------------------------------------------------- SELECTOR-NO-CACHE
def rule_selector_no_cache(db: ProgramDB) -> List[Instance]:
    """Conclusion selectors decide which conclusions apply to a row from what evaluating their operands leaves behind
    (the operands' _conclusion_ sets and truth flags).  A row served from a result cache has none of that, so for every
    selector class every result-cache read in the evaluation code it dispatches to must be switched off."""
    from ..facts import cache_switch_value_for
    out = []
    cs = db.cls("ConclusionSelector")
    se = db.cls("SymbolicExpression")
    # does the selector family actually depend on operand side effects?
    depends = False
    for c in cs.all_subclasses():
        for m in c.methods.values():
            src = unparse(m.node)
            if "._conclusion_" in src and ("self.left" in src or "self.right" in src):
                depends = True
    if not depends:
        out.append(inst("SELECTOR-NO-CACHE", INFO, cs, "ConclusionSelector", "selectors do not read their operands' conclusions"))
        return out
    for k in sorted(cs.all_subclasses(include_self=False), key=lambda c: c.name):
        # evaluation generators k dispatches to: its own and the ones reached by super()
        gens = []
        for c in k.mro:
            for name, m in c.methods.items():
                if m.is_generator and (is_eval_method_name(name) or name.startswith("evaluate")) and m not in gens:
                    gens.append(m)
        sites = []
        for m in gens:
            recv = _cache_receivers(db, m)
            for call in own_calls(m):
                f = call.func
                if isinstance(f, ast.Attribute) and f.attr in ("check", "retrieve") and unparse(f.value) in recv:
                    sites.append((m, call))
        for m, call in sites:
            # the guard of the read must contain a switch accessor that is constant False for k
            g = guards_of(call, m.node.body) or []
            p = db.parent(call)
            child = call
            extra = []
            while p is not None and not isinstance(p, ast.stmt):
                if isinstance(p, ast.BoolOp) and isinstance(p.op, ast.And):
                    idx = [i for i, v in enumerate(p.values) if v is child or any(x is child for x in ast.walk(v))]
                    if idx:
                        extra += [(v, True) for v in p.values[:idx[0]]]
                child = p
                p = db.parent(p)
            off = False
            for t, pol in list(g) + extra:
                for x in ast.walk(t):
                    if isinstance(x, ast.Call) and isinstance(x.func, ast.Attribute) and isinstance(x.func.value, ast.Name) \
                            and x.func.value.id == "self" and pol and cache_switch_value_for(db, k, x.func.attr) == "off":
                        off = True
            out.append(inst("SELECTOR-NO-CACHE", HOLDS if off else VIOLATION, m, f"{k.name}<-{m.short}[{unparse(call)[:40]}]",
                            f"for {k.name} this cache read is switched off" if off else
                            f"{k.name} can serve rows of its operands from `{unparse(call.func.value)}` without evaluating them: "
                            f"the conclusions (and truth flags) the selection reads are then those of an earlier row, so rows of "
                            f"a rule tree lose or swap their conclusions on re-evaluation with caching enabled", line=call.lineno))
    return out


# ---------------------------------------------------------------------------------- CHECK-IS-PURE / RETRIEVE-ALL-BRANCHES
def rule_check_is_pure(db: ProgramDB) -> List[Instance]:
    """Asking whether a lookup is covered must not change what is covered ('checking is not storing')."""
    out = []
    for cname in ("SeenSet", "IndexedCache"):
        c = db.cls(cname)
        m = c.methods.get("check")
        if m is None:
            raise AnalysisError(f"{cname}.check not found")
        from .history import self_mutating_methods
        mut = "check" in self_mutating_methods(db, c)
        out.append(inst("CHECK-IS-PURE", VIOLATION if mut else HOLDS, m, f"{cname}.check",
                        f"{cname}.check() writes the coverage state it is asked about: a lookup that binds none of the keys marks "
                        f"the index as covering everything although nothing was stored, and later lookups are answered from "
                        f"whatever the index happens to hold" if mut else f"{cname}.check() only reads"))
    return out


def rule_retrieve_all_branches(db: ProgramDB) -> List[Instance]:
    """Retrieval returns *each* stored entry that agrees with the lookup.  At one level of the index an entry agrees if it
    binds the key to the looked-up value or does not bind it (wildcard); when the lookup does not bind the key, every entry
    agrees.  The wildcard branch is therefore one of the branches to follow, never an alternative to the others.

    Decided on the control-flow graph of retrieve(), whatever idiom it is written in:
      (a) from the branch taken when the lookup does NOT bind the current key, every path to an exit goes through a visit of
          all children of the node (a loop over its items);
      (b) no path from the entry to an exit descends into the child of the looked-up value without also looking at the
          wildcard child of the same node (visiting it, or testing that there is none)."""
    out = []
    ic = db.cls("IndexedCache")
    m = ic.methods.get("retrieve")
    if m is None:
        raise AnalysisError("IndexedCache.retrieve not found")
    cfg = CFG(m)
    ap = "assignment" if "assignment" in m.params else m.positional_params[1]
    # names that hold the looked-up value of the current key, and loop variables ranging over (value, All)
    looked_up: Set[str] = set()
    both: Set[str] = set()
    for x in own_nodes(m.node):
        if isinstance(x, ast.Assign) and len(x.targets) == 1 and isinstance(x.targets[0], ast.Name) and isinstance(x.value, ast.Subscript) \
                and unparse(x.value.value) == ap:
            looked_up.add(x.targets[0].id)
        if isinstance(x, ast.For) and isinstance(x.target, ast.Name) and isinstance(x.iter, (ast.Tuple, ast.List)) \
                and any(unparse(e) in ("All", "ALL") for e in x.iter.elts):
            both.add(x.target.id)

    def child_keys(nd) -> List[str]:
        """keys under which this node reads a child of a trie: via subscript or .get()"""
        res = []
        if nd.ast is None:
            return res
        scan = nd.ast
        if nd.kind in ("test", "for") and hasattr(nd, "stmt") and nd.stmt is not None:
            scan = nd.stmt.test if nd.kind == "test" and hasattr(nd.stmt, "test") else (nd.stmt.iter if nd.kind == "for" else nd.ast)
        for x in ast.walk(scan):
            if isinstance(x, ast.Subscript) and isinstance(x.ctx, ast.Load) and unparse(x.value) != ap and "cache" in unparse(x.value):
                res.append(unparse(x.slice))
            elif isinstance(x, ast.Call) and call_attr(x) == "get" and x.args and "cache" in unparse(x.func.value):
                res.append(unparse(x.args[0]))
            elif isinstance(x, ast.Compare) and len(x.ops) == 1 and isinstance(x.ops[0], (ast.In, ast.NotIn)) and "cache" in unparse(x.comparators[0]) \
                    and unparse(x.left) in ("All", "ALL"):
                res.append(unparse(x.left))          # testing whether there is a wildcard child counts as looking at it
        return res

    def is_wild(nd) -> bool:
        return any(k in ("All", "ALL") or k in both for k in child_keys(nd))

    def is_concrete(nd) -> bool:
        if nd.kind == "test":
            return False
        return any(k.startswith(ap + "[") or k in looked_up or k in both for k in child_keys(nd) if k not in ("All", "ALL"))

    def visits_all(nd) -> bool:
        if nd.kind != "for":
            return False
        it = unparse(nd.stmt.iter)
        return "cache" in it and (it.endswith(".items()") or it.endswith(".values()") or it.endswith(".keys()") or it in ("cache",))
    exits = {cfg.exit}
    # (a)
    tests = [nd for nd in cfg.nodes if nd.kind == "test" and isinstance(nd.stmt, ast.If) and isinstance(nd.stmt.test, ast.Compare)
             and len(nd.stmt.test.ops) == 1 and isinstance(nd.stmt.test.ops[0], (ast.In, ast.NotIn)) and unparse(nd.stmt.test.comparators[0]) == ap]
    if not tests:
        raise AnalysisError("IndexedCache.retrieve: no branch on whether the lookup binds the current key found")
    for t in tests:
        unbound_label = "T" if isinstance(t.stmt.test.ops[0], ast.NotIn) else "F"
        bad = None
        for e in cfg.succ[t.id]:
            if e.kind != "n" or e.label != unbound_label:
                continue
            first = cfg.nodes[e.dst]
            if visits_all(first):
                continue
            p = cfg.find_path(first.id, lambda nd: nd.id in exits, kinds=("n",), blocked=visits_all)
            if p is not None or first.id in exits:
                bad = [e] + (p or [])
        out.append(inst("RETRIEVE-ALL-BRANCHES", VIOLATION if bad else HOLDS, m, "IndexedCache.retrieve[unbound key: wildcard instead of all branches]",
                        "when the lookup does not bind a key and a wildcard entry exists at that level, only the wildcard "
                        "branch is followed: the entries that bind the key are not returned (" + " ".join(cfg.describe_path(bad)[:3]) + ")" if bad else
                        "when the lookup does not bind a key, every child of the node is visited", line=t.lineno))
    # (b') the walk may collect the children to follow in a list first and descend in one loop afterwards: then which children are
    # followed is a matter of what the list holds, not of which statement is reached.  Decided by running the statements that build
    # the list for the four situations (an entry under the looked-up value: yes / no; an entry that leaves the key open: yes / no).
    collected = _branches_collected(db, m, ap)
    if collected is not None:
        res, where = collected
        both_ok = {"concrete", "wild"} <= res[(True, True)]
        miss_ok = "wild" in res[(False, True)]
        conc_ok = "concrete" in res[(True, False)]
        out.append(inst("RETRIEVE-ALL-BRANCHES", HOLDS if miss_ok else VIOLATION, m, "IndexedCache.retrieve[bound key absent: the wildcard child is followed]",
                        "when nothing is stored under the looked-up value, the entry that leaves the key open is followed" if miss_ok else
                        "when nothing is stored under the looked-up value, the list of children to follow stays without the wildcard child: a row stored under a binding "
                        "that leaves this key open is reported as covered and then not returned - rows are lost with caching on", line=where))
        extra = sorted({t for k in res for t in res[k] if t not in ("concrete", "wild")})
        out.append(inst("RETRIEVE-ALL-BRANCHES", VIOLATION if extra else HOLDS, m, "IndexedCache.retrieve[bound key: nothing but the entries that agree]",
                        f"when the lookup binds a key, the children followed can be {extra} "
                        f"(situations: {sorted(k for k in res if set(res[k]) - {'concrete', 'wild'})} = (entry under the looked-up value, entry that leaves the key open)): "
                        f"entries that bind the key to ANOTHER value are returned, and their value overwrites the lookup's" if extra else
                        "when the lookup binds a key, only the child of the looked-up value and the child that leaves the key open are followed", line=where))
        out.append(inst("RETRIEVE-ALL-BRANCHES", HOLDS if both_ok and conc_ok else VIOLATION, m, "IndexedCache.retrieve[bound key: wildcard only if concrete missing]",
                        "a bound key follows the child of the looked-up value and the wildcard child, whichever exist" if both_ok and conc_ok else
                        f"when the lookup binds a key and both an entry for the looked-up value and an entry that leaves the key open exist, the children followed are "
                        f"{sorted(res[(True, True)]) or 'none'}: the other entry is not returned next to it (an operator that stored a row while the key was unbound "
                        f"and other rows with it bound loses the row on a cache hit)", line=where))
        return out
    # (b)
    conc = [nd for nd in cfg.nodes if is_concrete(nd)]
    if not conc:
        raise AnalysisError("IndexedCache.retrieve: no descent into the child of the looked-up value found")
    bad = None
    for cn in conc:
        if is_wild(cn):
            continue
        p1 = cfg.find_path(cfg.entry, lambda nd: nd.id == cn.id, kinds=("n",), blocked=is_wild)
        if p1 is None:
            continue
        p2 = cfg.find_path(cn.id, lambda nd: nd.id in exits, kinds=("n",), blocked=is_wild)
        if p2 is not None:
            bad = (cn, p1 + p2)
            break
    # (c) when the lookup binds the key to a value nothing is stored under, the entries that leave the key open still agree: on the
    # branch 'looked-up value absent' every path to an exit looks at the wildcard child
    miss_tests = []
    for nd in cfg.nodes:
        t = getattr(nd.stmt, "test", None) if nd.kind == "test" else None
        neg = False
        while isinstance(t, ast.UnaryOp) and isinstance(t.op, ast.Not):
            t, neg = t.operand, not neg
        if isinstance(t, ast.Compare) and len(t.ops) == 1 and isinstance(t.ops[0], (ast.In, ast.NotIn)) and "cache" in unparse(t.comparators[0]) \
                and (unparse(t.left).startswith(ap + "[") or unparse(t.left) in looked_up):
            absent_label = "T" if isinstance(t.ops[0], ast.NotIn) != neg else "F"
            miss_tests.append((nd, absent_label))
    for nd, absent_label in miss_tests:
        bad_c = None
        for e in cfg.succ[nd.id]:
            if e.kind != "n" or e.label != absent_label:
                continue
            first = cfg.nodes[e.dst]
            if is_wild(first):
                continue
            pc = cfg.find_path(first.id, lambda x: x.id in exits, kinds=("n",), blocked=is_wild)
            if pc is not None or first.id in exits:
                bad_c = [e] + (pc or [])
        out.append(inst("RETRIEVE-ALL-BRANCHES", VIOLATION if bad_c else HOLDS, m, "IndexedCache.retrieve[bound key absent: the wildcard child is followed]",
                        "when nothing is stored under the looked-up value, retrieve() returns without looking at the wildcard child of that level (" +
                        " ".join(cfg.describe_path(bad_c)[:3]) + "): a row stored under a binding that leaves this key open (or_(d.trusted, p.device == d) is true "
                        "for a trusted d without binding p) is reported as covered and then not returned - rows are lost with caching on" if bad_c else
                        "when nothing is stored under the looked-up value, the wildcard child of the level is looked at", line=nd.lineno))
    out.append(inst("RETRIEVE-ALL-BRANCHES", VIOLATION if bad else HOLDS, m, "IndexedCache.retrieve[bound key: wildcard only if concrete missing]",
                    "when the lookup binds a key, the wildcard branch of that level is followed only if no entry binds "
                    f"the key to the looked-up value: entries that leave the key open are not returned next to it (`{bad[0].src()[:50]}` is reached "
                    "and left without the wildcard child having been looked at)" if bad else
                    "the wildcard child is looked at on every path that descends into the child of the looked-up value",
                    line=bad[0].lineno if bad else m.lineno))
    return out


def rule_retrieve_bound_branches(db: ProgramDB) -> List[Instance]:
    """The clauses of RETRIEVE-ALL-BRANCHES about a key the lookup BINDS (the ones the operators' caches depend on: a row stored while a
    variable was unbound next to rows stored with it bound)."""
    return [i for i in rule_retrieve_all_branches(db) if "unbound key" not in i.construct]


def _branches_collected(db: ProgramDB, m: FuncInfo, ap: str, unbound: bool = False):
    """If retrieve() collects the children to follow for a BOUND key (or, unbound=True, for a key the lookup leaves open) in a local list:
    {(concrete?, wildcard?): set of tags in the list}, line.  Tags: 'concrete', 'wild', 'all' (every child of the level).

    The statements of the function are run in order up to the loop over the list, for the situation asked about: the list may be started
    before the branch on whether the lookup binds the key, and filled or replaced after it."""
    from ..boolexpr import eval_bool
    bound_ifs = [x for x in own_nodes(m.node) if isinstance(x, ast.If) and isinstance(x.test, ast.Compare) and len(x.test.ops) == 1
                 and isinstance(x.test.ops[0], (ast.In, ast.NotIn)) and unparse(x.test.comparators[0]) == ap]
    if len(bound_ifs) != 1:
        return None
    loops = [f for f in own_nodes(m.node) if isinstance(f, ast.For) and isinstance(f.iter, ast.Name)]
    lists = {a.targets[0].id for a in own_nodes(m.node) if isinstance(a, ast.Assign) and len(a.targets) == 1 and isinstance(a.targets[0], ast.Name)
             and isinstance(a.value, ast.List)}
    loops = [f for f in loops if f.iter.id in lists]
    if len(loops) != 1:
        return None
    L = loops[0].iter.id
    the_loop = loops[0]

    def touches(stmts) -> bool:
        for st in stmts:
            for x in ast.walk(st):
                if isinstance(x, ast.Name) and x.id == L:
                    return True
        return False

    class _Reached(Exception):
        pass
    res = {}
    for C in (False, True):
        for W in (False, True):
            held: Set[str] = set()

            def atom(e):
                if isinstance(e, ast.Compare) and len(e.ops) == 1 and isinstance(e.ops[0], (ast.In, ast.NotIn)):
                    neg = "!" if isinstance(e.ops[0], ast.NotIn) else ""
                    if unparse(e.comparators[0]) == ap:
                        return neg + "K"
                    if "cache" in unparse(e.comparators[0]):
                        l = unparse(e.left)
                        a = "W" if l in ("All", "ALL") else ("C" if l.startswith(ap + "[") else None)
                        if a:
                            return neg + a
                if isinstance(e, ast.Name) and e.id == L:
                    return "L"
                return None

            def run(stmts):
                for st in stmts:
                    if st is the_loop:
                        raise _Reached()
                    if isinstance(st, ast.If):
                        try:
                            t = bool(eval_bool(st.test, atom, {"K": not unbound, "C": C, "W": W, "L": bool(held)}))
                        except AnalysisError:
                            if touches(st.body) or touches(st.orelse) or any(x is the_loop for x in ast.walk(st)):
                                raise
                            continue
                        run(st.body if t else st.orelse)
                    elif isinstance(st, ast.Expr) and isinstance(st.value, ast.Call) and call_attr(st.value) in ("append", "add") and unparse(st.value.func.value) == L:
                        src = unparse(st.value.args[0]) if st.value.args else ""
                        if "cache[All]" in src or "cache[ALL]" in src or "cache.get(All" in src:
                            held.add("wild")
                        elif f"cache[{ap}[" in src or "cache.get(" + ap in src:
                            held.add("concrete")
                        else:
                            held.add("?" + src[:20])
                    elif isinstance(st, ast.Assign) and any(isinstance(t, ast.Name) and t.id == L for t in st.targets):
                        held.clear()
                        if isinstance(st.value, ast.List):
                            for e_ in st.value.elts:
                                u = unparse(e_)
                                held.add("wild" if "cache[All]" in u else "concrete" if f"cache[{ap}[" in u else "?")
                        elif any(isinstance(c_, ast.Call) and call_attr(c_) in ("items", "values", "keys") and "cache" in unparse(c_.func.value) for c_ in ast.walk(st.value)):
                            excl = any(isinstance(c_, ast.Compare) and any(unparse(o) in ("All", "ALL") for o in [c_.left] + c_.comparators) for c_ in ast.walk(st.value))
                            held.add("all-but-wild" if excl else "all")
                        else:
                            held.add("?" + unparse(st.value)[:20])
                    elif isinstance(st, (ast.AugAssign, ast.For, ast.While, ast.With, ast.Try)) and touches([st]):
                        raise AnalysisError("the list of children to follow is built by a statement kind that is not modelled")
            try:
                run(m.node.body)
                return None                   # the loop was not reached in straight-line order
            except _Reached:
                pass
            except AnalysisError:
                return None
            res[(C, W)] = set(held)
    return res, bound_ifs[0].lineno


# ---------------------------------------------------------------------------------- REPLAY-DEDUP
def _generic_atom(e: ast.AST) -> Optional[str]:
    """Atoms for satisfiability questions over guards: any name / attribute / call is an atom of its own."""
    if isinstance(e, ast.Attribute) and isinstance(e.value, ast.Name) and e.value.id == "self" and e.attr == "_is_false_":
        return "F"
    if isinstance(e, ast.Call) and call_attr(e) == "_is_duplicate_output_":
        return "D"
    if isinstance(e, (ast.Name, ast.Attribute, ast.Call, ast.Subscript)):
        return "a:" + unparse(e)
    return None


def _atoms_in(tests: List[ast.AST]) -> List[str]:
    seen = []

    def walk(e):
        a = _generic_atom(e)
        if a is not None:
            if a not in seen:
                seen.append(a)
            return
        for c in ast.iter_child_nodes(e):
            walk(c)
    for t in tests:
        walk(t)
    return seen


def _satisfiable(guards: List[Tuple[ast.AST, bool]], fixed: Dict[str, bool]) -> bool:
    import itertools
    from ..boolexpr import eval_bool
    atoms = [a for a in _atoms_in([g for g, _ in guards]) if a not in fixed]
    if len(atoms) > 10:
        raise AnalysisError("too many atoms in a guard chain")
    for vals in itertools.product([False, True], repeat=len(atoms)):
        env = dict(fixed)
        env.update(zip(atoms, vals))
        if all(bool(eval_bool(t, _generic_atom, env)) == pol for t, pol in guards):
            return True
    return False


def rule_replay_dedup(db: ProgramDB) -> List[Instance]:
    """An operator that, for each row of one operand, either evaluates its other operand or replays that operand's rows
    from a cache must treat both alike: if the evaluating path suppresses duplicates of TRUE rows before it yields, the
    replay has to suppress them too, otherwise the second evaluation (cache hit) returns rows the first one (cache miss)
    and every evaluation with caching disabled suppressed."""
    from ..boolexpr import guards_of
    out = []
    bo = db.cls("BinaryOperator")
    # replay helpers: loop over X.retrieve(...) with a `continue` guarded by the duplicate test
    helpers: Dict[str, Tuple[FuncInfo, ast.If, str, List[str]]] = {}
    for c in [bo] + bo.all_subclasses():
        for m in c.methods.values():
            if not m.is_generator:
                continue
            for loop in [n for n in own_nodes(m.node) if isinstance(n, ast.For)]:
                it = loop.iter
                if not (isinstance(it, ast.Call) and call_attr(it) == "retrieve"):
                    continue
                if not (isinstance(loop.target, ast.Tuple) and len(loop.target.elts) == 2 and isinstance(loop.target.elts[1], ast.Name)):
                    continue
                flag = loop.target.elts[1].id
                yields_rows = any(isinstance(n, ast.Yield) and n.value is not None and not isinstance(n.value, ast.Tuple)
                                  for n in ast.walk(loop))
                if not yields_rows:
                    continue
                dedup_if = None
                for n in ast.walk(loop):
                    if isinstance(n, ast.If) and any(isinstance(x, ast.Call) and call_attr(x) == "_is_duplicate_output_" for x in ast.walk(n.test)) \
                            and n.body and isinstance(n.body[-1], ast.Continue):
                        dedup_if = n
                helpers[m.name] = (m, loop, dedup_if, flag)
    if not helpers:
        raise AnalysisError("no cache-replay helper (loop over <cache>.retrieve(...) that yields rows) found on BinaryOperator")
    # a replayed row is dropped by the duplicate guard only when it IS a duplicate: the guard implies the duplicate test, whatever
    # the row's truth and the helper's flags
    import itertools as _it
    from ..boolexpr import eval_bool as _eval_bool
    for hname, (hm, hloop, dedup_if, flag) in sorted(helpers.items()):
        if dedup_if is None:
            continue
        pnames = sorted({x.id for x in ast.walk(dedup_if.test) if isinstance(x, ast.Name) and x.id in hm.params})

        def atom_h(e, flag=flag, hm=hm):
            if isinstance(e, ast.Name) and e.id == flag:
                return "F"
            if isinstance(e, ast.Call) and call_attr(e) == "_is_duplicate_output_":
                return "D"
            if isinstance(e, ast.Name) and e.id in hm.params:
                return "p:" + e.id
            return None
        bad_env = None
        try:
            for vals in _it.product([False, True], repeat=1 + len(pnames)):
                env = {"F": vals[0], "D": False}
                env.update({"p:" + p: v for p, v in zip(pnames, vals[1:])})
                if bool(_eval_bool(dedup_if.test, atom_h, env)):
                    bad_env = env
                    break
        except AnalysisError as e:
            out.append(inst("REPLAY-DEDUP", UNDECIDED, hm, f"{hm.short}[a row that is no duplicate is replayed]", f"guard not decidable: {e}", line=dedup_if.lineno))
            continue
        out.append(inst("REPLAY-DEDUP", VIOLATION if bad_env else HOLDS, hm, f"{hm.short}[a row that is no duplicate is replayed]",
                        f"`{unparse(dedup_if.test)}` drops a replayed row that is NOT a duplicate (row false: {bad_env['F']}" +
                        "".join(f", {k[2:]}={v}" for k, v in bad_env.items() if k.startswith("p:")) + "): every false row stored in a result cache is lost on "
                        "replay, and an enclosing or_ that needs the false row to try its other side loses satisfying assignments on the second evaluation"
                        if bad_env else "the duplicate guard of the replay drops a row only when the duplicate test says so", line=dedup_if.lineno))

    def replay_suppresses_true(hname: str, call: ast.Call) -> bool:
        m, loop, dedup_if, flag = helpers[hname]
        if dedup_if is None:
            return False
        from ..boolexpr import eval_bool
        from ..facts import bind_args, fn_params
        bound = bind_args(fn_params(m), call)  # param -> expr

        def atom(e):
            if isinstance(e, ast.Name) and e.id == flag:
                return "F"
            if isinstance(e, ast.Call) and call_attr(e) == "_is_duplicate_output_":
                return "D"
            if isinstance(e, ast.Name) and e.id in m.params:
                return "p:" + e.id
            if isinstance(e, ast.Compare) and len(e.ops) == 1 and isinstance(e.ops[0], (ast.In, ast.NotIn)) and isinstance(e.comparators[0], ast.Name) \
                    and e.comparators[0].id not in m.params:
                # membership in a set local to this call (the rows this replay has handed on already): the question is about a row
                # that comes up for the first time in the call
                return ("!" if isinstance(e.ops[0], ast.NotIn) else "") + "AGAIN"
            return None
        env = {"F": False, "D": True, "AGAIN": False}
        g = guards_of(dedup_if, loop.body) or []
        used = {x.id for t in [dedup_if.test] + [t for t, _ in g] for x in ast.walk(t) if isinstance(x, ast.Name)}
        for p in [q for q in m.params if q in used]:
            v = bound.get(p)
            if v is None:
                v = m.param_default(p)
            if isinstance(v, ast.Constant) and isinstance(v.value, bool):
                env["p:" + p] = v.value
            else:
                env["p:" + p] = False if v is None else None
        # a flag that is not a constant at the call (the caller's own request for false rows) is tried both ways: the answer for a
        # TRUE row must not depend on it
        unknown = [k for k, val in env.items() if val is None]
        answers = set()
        import itertools as _it2
        for vals in _it2.product([False, True], repeat=len(unknown)):
            env2 = dict(env)
            env2.update(dict(zip(unknown, vals)))
            answers.add(all(bool(eval_bool(t, atom, env2)) == pol for t, pol in g) and bool(eval_bool(dedup_if.test, atom, env2)))
        if len(answers) != 1:
            raise AnalysisError(f"replay call `{unparse(call)}`: whether a duplicate true row is suppressed depends on a non-constant flag")
        return answers.pop()
    n = 0
    se = db.cls("SymbolicExpression")
    for c in se.all_subclasses():
        for m in c.methods.values():
            if not m.is_generator:
                continue
            for call in own_calls(m):
                hn = call_attr(call)
                if hn not in helpers or not (isinstance(call.func.value, ast.Name) and call.func.value.id == "self"):
                    continue
                # enclosing loop over rows (a per-row replay), and the block the replay statement sits in
                chain = []

                def find(body, anc):
                    for s in body:
                        if any(x is call for x in ast.walk(s)):
                            chain.append((body, s, anc))
                            for fld in ("body", "orelse", "finalbody"):
                                sub = getattr(s, fld, None)
                                if isinstance(sub, list) and sub and isinstance(sub[0], ast.stmt):
                                    find(sub, anc + [s])
                            for h in getattr(s, "handlers", []) or []:
                                find(h.body, anc + [s])
                            return
                find(m.node.body, [])
                loops = [s for _, s, _ in chain if isinstance(s, ast.For)]
                if not loops:
                    continue  # replay of the operator's own output cache for the whole incoming binding
                loop = loops[-1]
                # the `if` statement directly holding the replay, and the statements that follow it in its block: the
                # evaluating path the replay stands for
                holder = [(body, s) for body, s, _ in chain if isinstance(s, ast.If) and any(x is call for x in ast.walk(s))]
                if not holder:
                    continue
                body, stmt = holder[-1]
                rest = body[body.index(stmt) + 1:]
                n += 1
                live_suppresses = False
                for s in rest:
                    for x in ast.walk(s):
                        if isinstance(x, ast.If) and x.body and isinstance(x.body[-1], ast.Continue) and \
                                any(isinstance(y, ast.Call) and call_attr(y) == "_is_duplicate_output_" for y in ast.walk(x.test)):
                            g = guards_of(x, rest) or []
                            tests = [(t, pol) for t, pol in g] + [(x.test, True)]
                            if _satisfiable(tests, {"F": False, "D": True}):
                                live_suppresses = True
                replay = replay_suppresses_true(hn, call)
                ok = (not live_suppresses) or replay
                if ok and replay and not live_suppresses:
                    out.append(inst("REPLAY-DEDUP", VIOLATION, m, f"{m.short}[{unparse(call)[:46]}]",
                                    "the replay suppresses duplicates of TRUE rows and the evaluating path it stands for does not: on a cache hit (every re-evaluation) rows that the "
                                    "first evaluation returned are dropped - the same object listed twice in one flattened collection gives two rows the first time and one "
                                    "afterwards", line=call.lineno))
                    continue
                out.append(inst("REPLAY-DEDUP", HOLDS if ok else VIOLATION, m, f"{m.short}[{unparse(call)[:46]}]",
                                (f"evaluating path suppresses duplicate true rows: {live_suppresses}; the replay does: {replay}") if ok else
                                "for each row of the other operand this operator either evaluates the operand (and suppresses "
                                "duplicates of true rows before yielding) or replays its rows from the cache WITHOUT suppressing "
                                "them: on a cache hit (the second evaluation) rows come back more often than on the first evaluation "
                                "or with caching disabled", line=call.lineno))
    if n == 0:
        raise AnalysisError("no per-row cache replay site found")
    return out


# ---------------------------------------------------------------------------------- REPLAY-CONTEXT
def rule_replay_context(db: ProgramDB) -> List[Instance]:
    """An operand cache is consulted only in the situation for which it is filled.  The right-operand cache of an
    else-if holds the rows of the right side for bindings on which the left side was FALSE; consulting it before the
    truth of the left side is looked at answers rows whose left side is true with what the right side said."""
    import itertools
    from ..boolexpr import guards_of
    out = []
    se = db.cls("SymbolicExpression")
    n = 0
    for c in sorted(se.all_subclasses(), key=lambda k: k.qualname):
        for m in c.methods.values():
            if not m.is_generator or m.cls is not c:
                continue
            for loop in [l for l in own_nodes(m.node) if isinstance(l, ast.For)]:
                reads = [x for st in loop.body for x in ast.walk(st) if isinstance(x, ast.Call) and call_attr(x) == "check"
                         and isinstance(x.func.value, ast.Attribute) and isinstance(x.func.value.value, ast.Name)
                         and x.func.value.value.id == "self"]
                for rd in reads:
                    cache = unparse(rd.func.value)
                    # innermost loop only
                    if any(isinstance(l2, ast.For) and l2 is not loop and any(x is rd for x in ast.walk(l2)) for st in loop.body for l2 in ast.walk(st)):
                        continue
                    writes = [x for st in loop.body for x in ast.walk(st) if isinstance(x, ast.Call) and call_attr(x) in ("update_cache", "insert")
                              and any(unparse(a) == cache for a in list(x.args) + [k.value for k in x.keywords])]
                    if not writes:
                        continue
                    n += 1
                    rstmt = _stmt_of(db, rd)
                    rg = (guards_of(rstmt, loop.body) or [])
                    wgs = [(guards_of(_stmt_of(db, w), loop.body) or []) for w in writes]
                    flag_atoms = sorted({a for g in [rg] + wgs for a in _atoms_in([t for t, _ in g])
                                         if a.startswith("a:self.") and a.endswith("._is_false_") and a != "a:self._is_false_"})
                    bad = None
                    for vals in itertools.product([False, True], repeat=len(flag_atoms)):
                        fixed = dict(zip(flag_atoms, vals))
                        if _satisfiable(rg, fixed) and not any(_satisfiable(wg, fixed) for wg in wgs):
                            bad = fixed
                            break
                    ok = bad is None
                    out.append(inst("REPLAY-CONTEXT", HOLDS if ok else VIOLATION, m, f"{m.short}[{unparse(rd)[:44]}]",
                                    f"`{cache}` is consulted only under operand truth values for which it is also filled" if ok else
                                    f"`{cache}` is consulted when {', '.join(k[2:] + '=' + str(v) for k, v in bad.items())}, a situation in "
                                    f"which it is never filled: rows for which the other operand already decided are answered "
                                    f"from what this operand's cache says (results differ between caching enabled and disabled)",
                                    line=rd.lineno))
    if n == 0:
        raise AnalysisError("no per-row operand cache (check + update_cache on the same cache inside one loop) found")
    return out


def _stmt_of(db: ProgramDB, node: ast.AST) -> ast.stmt:
    p = node
    while p is not None and not isinstance(p, ast.stmt):
        p = db.parent(p)
    return p


# ---------------------------------------------------------------------------------- COVERAGE-SUBSUMPTION
def rule_coverage_subsumption(db: ProgramDB) -> List[Instance]:
    """A lookup is covered exactly when some stored binding is CONTAINED in it: every key the stored binding binds is bound
    by the lookup to the same value.  Decided by evaluating the per-key test of SeenSet.check in the three situations a key of
    a stored binding can be in: bound to the same value (must hold), bound to another value (must fail), not bound by the
    lookup (must fail - otherwise a lookup that binds fewer keys is answered from rows that were computed for one value of
    the missing key only)."""
    out = []
    ss = db.cls("SeenSet")
    m = ss.methods.get("check")
    if m is None:
        raise AnalysisError("SeenSet.check not found")
    ap = m.positional_params[1]
    alls = [c for c in own_nodes(m.node) if isinstance(c, ast.Call) and dotted(c.func) == "all" and c.args
            and isinstance(c.args[0], (ast.GeneratorExp, ast.ListComp))]
    justified_tests: List[ast.AST] = []       # the tests / loops whose success establishes containment
    if len(alls) == 1:
        comp = alls[0].args[0]
        g = comp.generators[0]
        if not (isinstance(g.target, ast.Tuple) and len(g.target.elts) == 2 and all(isinstance(e, ast.Name) for e in g.target.elts)) or g.ifs:
            raise AnalysisError("SeenSet.check: the per-key test is not over (key, value) pairs of a stored binding")
        kn, vn = g.target.elts[0].id, g.target.elts[1].id
        per_key = comp.elt
        justified_tests.append(alls[0])
    else:
        # the loop form: for k, v in constraint.items(): if <fails>: break   else: <covered>
        loops = [f for f in own_nodes(m.node) if isinstance(f, ast.For) and isinstance(f.iter, ast.Call) and call_attr(f.iter) == "items" and f.orelse
                 and isinstance(f.target, ast.Tuple) and len(f.target.elts) == 2 and all(isinstance(e, ast.Name) for e in f.target.elts)
                 and len(f.body) == 1 and isinstance(f.body[0], ast.If) and len(f.body[0].body) == 1 and isinstance(f.body[0].body[0], ast.Break)
                 and not f.body[0].orelse]
        if len(alls) > 1 or len(loops) != 1:
            raise AnalysisError(f"SeenSet.check: expected one per-key containment test (all(… for k, v in constraint.items()) or a for/else "
                                f"over the items), found {len(alls)} all() and {len(loops)} loops")
        kn, vn = loops[0].target.elts[0].id, loops[0].target.elts[1].id
        per_key = ast.UnaryOp(op=ast.Not(), operand=loops[0].body[0].test)
        ast.copy_location(per_key, loops[0].body[0].test)
        comp = loops[0].body[0]
        justified_tests.append(loops[0])

    class _C:            # uniform access below
        elt = per_key
        lineno = comp.lineno
    comp = _C

    class Unknown(Exception):
        pass

    def ev(e: ast.AST, case: str):
        """case: 'same' | 'other' | 'missing'.  Values: 'V' (the stored value), 'W' (another value), booleans."""
        if isinstance(e, ast.Constant):
            return e.value
        if isinstance(e, ast.Name):
            if e.id == vn:
                return "V"
            raise Unknown(unparse(e))
        if isinstance(e, ast.Subscript) and unparse(e.value) == ap and unparse(e.slice) == kn:
            if case == "missing":
                raise KeyError
            return "V" if case == "same" else "W"
        if isinstance(e, ast.Call) and call_attr(e) == "get" and unparse(e.func.value) == ap and e.args and unparse(e.args[0]) == kn:
            if case == "missing":
                return ev(e.args[1], case) if len(e.args) > 1 else None
            return "V" if case == "same" else "W"
        if isinstance(e, ast.Compare) and len(e.ops) == 1:
            if isinstance(e.ops[0], (ast.In, ast.NotIn)) and unparse(e.left) == kn and unparse(e.comparators[0]) in (ap, f"{ap}.keys()"):
                r = case != "missing"
                return r if isinstance(e.ops[0], ast.In) else not r
            l, r = ev(e.left, case), ev(e.comparators[0], case)
            if isinstance(e.ops[0], (ast.Eq, ast.Is)):
                return l == r
            if isinstance(e.ops[0], (ast.NotEq, ast.IsNot)):
                return l != r
        if isinstance(e, ast.IfExp):
            return ev(e.body, case) if ev(e.test, case) else ev(e.orelse, case)
        if isinstance(e, ast.BoolOp):
            if isinstance(e.op, ast.And):
                r = True
                for x in e.values:
                    r = ev(x, case)
                    if not r:
                        return r
                return r
            r = False
            for x in e.values:
                r = ev(x, case)
                if r:
                    return r
            return r
        if isinstance(e, ast.UnaryOp) and isinstance(e.op, ast.Not):
            return not ev(e.operand, case)
        raise Unknown(unparse(e))
    want = {"same": True, "other": False, "missing": False}
    words = {"same": "the lookup binds the key to the stored value", "other": "the lookup binds the key to another value",
             "missing": "the lookup does not bind the key"}
    for case in ("same", "other", "missing"):
        try:
            got = bool(ev(comp.elt, case))
        except KeyError:
            out.append(inst("COVERAGE-SUBSUMPTION", VIOLATION, m, f"SeenSet.check[{case}]", f"`{unparse(comp.elt)}` raises KeyError when {words[case]}", line=comp.lineno))
            continue
        except Unknown as u:
            out.append(inst("COVERAGE-SUBSUMPTION", UNDECIDED, m, f"SeenSet.check[{case}]", f"`{unparse(comp.elt)}`: sub-expression `{u}` is outside the accepted table", line=comp.lineno))
            continue
        ok = got == want[case]
        out.append(inst("COVERAGE-SUBSUMPTION", HOLDS if ok else VIOLATION, m, f"SeenSet.check[{case}]",
                        f"when {words[case]} the per-key test is {got}" + ("" if ok else
                        f", it has to be {want[case]}: the stored binding is then taken to cover a lookup it is not contained in, the "
                        f"operator skips the evaluation and replays a cache that holds the rows of another binding (rows are lost on the second "
                        f"evaluation of the same query)"), line=comp.lineno))
    # every way of answering 'covered' goes through that containment test (or through 'an empty binding was stored')
    cfg = CFG(m)

    def answers_covered(nd):
        a = nd.ast
        return nd.kind == "return" and isinstance(a, ast.Return) and a.value is not None and not (isinstance(a.value, ast.Constant) and not a.value.value)
    jt = {id(t) for t in justified_tests}
    verdict = {"v": HOLDS, "why": ""}

    def edge_ok(e):
        src = cfg.nodes[e.src]
        if src.kind == "test" and e.label == "T":
            t = getattr(src.stmt, "test", None)
            if t is not None:
                if any(id(x) in jt for x in ast.walk(t)):
                    return False
                u = unparse(t)
                if u in ("self.all_seen",):
                    return False
                if isinstance(t, ast.Compare) and len(t.ops) == 1 and isinstance(t.ops[0], ast.In) and f"{ap}.items()" in unparse(t.left) \
                        and f"{ap}.values()" not in unparse(t.left):
                    return False          # exact match on (key, value) pairs: contained
        if src.kind == "for" and id(src.stmt) in {id(t) for t in justified_tests} and e.label == "done":
            return False
        return True
    rets = [nd for nd in cfg.nodes if answers_covered(nd)]
    if not rets:
        raise AnalysisError("SeenSet.check: no path that answers 'covered' found")
    bad = None
    for r in rets:
        if isinstance(r.ast.value, ast.Constant) or True:
            p = cfg.find_path(cfg.entry, lambda nd, r=r: nd.id == r.id, kinds=("n",), edge_ok=edge_ok)
            if p is not None:
                bad = (r, p)
                break
    out.append(inst("COVERAGE-SUBSUMPTION", VIOLATION if bad else HOLDS, m, "SeenSet.check[covered only by containment]",
                    "every path that answers 'covered' passes the per-key containment test or 'an empty binding was stored'" if not bad else
                    f"`{bad[0].src()[:60]}` answers 'covered' on a path that does not go through the per-key containment test "
                    f"({' '.join(cfg.describe_path(bad[1])[-3:])}): a shortcut that compares less than (key, value) pairs - e.g. the values without "
                    f"their keys - takes a binding for covered that was never stored, the operator replays another binding's rows or "
                    f"suppresses a new row as a duplicate", line=bad[0].lineno if bad else m.lineno))
    return out


# ---------------------------------------------------------------------------------- CACHE-OPERAND-AGREEMENT
def rule_cache_operand_agreement(db: ProgramDB) -> List[Instance]:
    """An operand cache stands for one operand: `right_cache` is keyed by the variables of `self.right` and holds the rows of
    `self.right` (stored per row of that operand's stream).  Keys or rows taken from the other operand make the cache claim
    bindings it has no rows for."""
    from .binding import derived_closure, names_in
    from ..evalsites import site_model
    out = []
    se = db.cls("SymbolicExpression")
    model = site_model(db)
    n = 0
    for c in sorted([se] + se.all_subclasses(), key=lambda k: k.qualname):
        for m in c.methods.values():
            if m.cls is not c:
                continue
            # keys
            for a in own_nodes(m.node):
                if isinstance(a, ast.Assign) and len(a.targets) == 1 and isinstance(a.targets[0], ast.Attribute) and a.targets[0].attr == "keys":
                    recv = a.targets[0].value
                    if isinstance(recv, ast.Attribute) and isinstance(recv.value, ast.Name) and recv.value.id == "self" and recv.attr.endswith("_cache") \
                            and recv.attr.split("_")[0] in ("left", "right"):
                        side = recv.attr.split("_")[0]
                        other = "left" if side == "right" else "right"
                        srcs = names_in(a.value)
                        defs = local_defs(m)
                        text = unparse(a.value)
                        for nm in srcs:
                            for d in defs.get(nm, []):
                                if isinstance(d, ast.AST):
                                    text += " " + unparse(d)
                        n += 1
                        ok = f"self.{side}." in text and f"self.{other}." not in text
                        out.append(inst("CACHE-OPERAND-AGREEMENT", HOLDS if ok else VIOLATION, m, f"{m.short}[keys of self.{recv.attr}]",
                                        f"keyed by the variables of self.{side}" if ok else
                                        f"`{unparse(a)[:70]}` keys the cache of the {side} operand by something else than the variables of self.{side}: "
                                        f"rows of self.{side} that bind other variables are stored under no key and a later binding is reported "
                                        f"as covered (results differ on re-evaluation with caching enabled)", line=a.lineno))
            # rows
            if not m.is_generator:
                continue
            for call in own_calls(m):
                if call_attr(call) != "update_cache":
                    continue
                callee = c.lookup("update_cache")
                from ..facts import bind_args, fn_params
                try:
                    amap = bind_args(fn_params(callee), call) if callee is not None else {}
                except AnalysisError:
                    amap = {}
                cexpr = amap.get("cache")
                row_expr = amap.get("values", call.args[0] if call.args else None)
                if cexpr is None or row_expr is None:
                    continue
                if not (isinstance(cexpr, ast.Attribute) and isinstance(cexpr.value, ast.Name) and cexpr.value.id == "self"
                        and cexpr.attr.endswith("_cache") and cexpr.attr.split("_")[0] in ("left", "right")):
                    continue
                side = cexpr.attr.split("_")[0]
                loops = model._enclosing_stream_loops(m, call)
                mine = [l for l in loops if f"self.{side}." in unparse(l.iter) or any(
                    f"self.{side}." in unparse(d) for nm in names_in(l.iter) for d in local_defs(m).get(nm, []) if isinstance(d, ast.AST))]
                n += 1
                if not mine:
                    out.append(inst("CACHE-OPERAND-AGREEMENT", VIOLATION, m, f"{m.short}[{unparse(call)[:50]}]",
                                    f"rows are stored into self.{cexpr.attr} outside any loop over the rows of self.{side}", line=call.lineno))
                    continue
                tn = {x.id for x in ast.walk(mine[-1].target) if isinstance(x, ast.Name)}
                ok = isinstance(row_expr, ast.Name) and row_expr.id in tn
                out.append(inst("CACHE-OPERAND-AGREEMENT", HOLDS if ok else VIOLATION, m, f"{m.short}[{unparse(call)[:50]}]",
                                f"the row of self.{side} is what is stored in self.{cexpr.attr}" if ok else
                                f"`{unparse(call)}` stores `{unparse(row_expr)}`, not the row `{', '.join(sorted(tn))}` of self.{side}, in the cache "
                                f"of the {side} operand: the stored binding does not bind that operand's variables, so it covers every later "
                                f"lookup and replays rows with those variables unbound", line=call.lineno))
    # what is checked is what is replayed: `if <cache>.check(<lookup>): replay(...)` replays from the cache whose coverage was tested
    n_chk = 0
    for c in sorted([se] + se.all_subclasses(), key=lambda k: k.qualname):
        for m in c.methods.values():
            if m.cls is not c or not m.is_generator:
                continue
            for st in own_nodes(m.node):
                if not isinstance(st, ast.If):
                    continue
                chk = [x for x in ast.walk(st.test) if isinstance(x, ast.Call) and call_attr(x) == "check" and len(x.args) == 1
                       and isinstance(x.func.value, ast.Attribute) and x.func.value.attr.endswith("cache_") | x.func.value.attr.endswith("_cache")]
                if len(chk) != 1:
                    continue
                chk = chk[0]
                ctext, lookup = unparse(chk.func.value), unparse(chk.args[0])
                for call in [x for b in st.body for x in ast.walk(b) if isinstance(x, ast.Call)]:
                    an = call_attr(call)
                    used, arg = None, None
                    if an in ("yield_final_output_from_cache", "yield_from_cache"):
                        callee = c.lookup(an)
                        if callee is None:
                            continue
                        amap = bind_args(fn_params(callee), call)
                        cexpr = amap.get("cache")
                        used = "self._cache_" if cexpr is None or unparse(cexpr) == "None" else unparse(cexpr)
                        a0 = amap.get("variables_sources", call.args[0] if call.args else None)
                        arg = unparse(a0) if a0 is not None else None
                    elif an == "retrieve" and isinstance(call.func.value, ast.Attribute) and "cache" in call.func.value.attr:
                        used, arg = unparse(call.func.value), unparse(call.args[0]) if call.args else None
                    else:
                        continue
                    n_chk += 1
                    ok = used == ctext and arg == lookup
                    out.append(inst("CACHE-OPERAND-AGREEMENT", HOLDS if ok else VIOLATION, m, f"{m.short}[replay after {ctext}.check]",
                                    f"covered by {ctext} -> replayed from {ctext} for the same lookup" if ok else
                                    f"coverage is tested with `{unparse(chk)}` but `{unparse(call)[:80]}` replays from `{used}` for `{arg}`: the rows replayed are "
                                    f"those of another cache (or for another lookup) than the one that was found to cover the binding - with caching enabled "
                                    f"the operator answers from the wrong rows, with caching disabled it evaluates, and the results differ",
                                    line=call.lineno))
    if n == 0:
        raise AnalysisError("no operand cache (left_cache / right_cache) found")
    if n_chk < 3:
        raise AnalysisError(f"only {n_chk} guarded replay site(s) found (expected the comparator, the conjunction and the alternatives)")
    return out


# ---------------------------------------------------------------------------------- COVERAGE-ONLY-IF-STORED
def rule_coverage_only_if_stored(db: ProgramDB) -> List[Instance]:
    """insert() records the binding as covered and walks the key levels to store the output.  With an empty key list (the
    cache of a comparison between two literals) there is no level: nothing is stored, so nothing may be recorded as covered
    - the empty binding covers every lookup, and every later lookup would be answered from an empty index."""
    from ..abseval import AbsEval, State, TRUE, EMPTY
    out = []
    ic = db.cls("IndexedCache")
    m = ic.methods.get("insert")
    if m is None:
        raise AnalysisError("IndexedCache.insert not found")
    cfg = CFG(m)

    def attr_hook(e, st, ev_):
        if isinstance(e, ast.Attribute) and isinstance(e.value, ast.Name) and e.value.id == "self" and e.attr in ("keys", "_keys"):
            return EMPTY
        return None
    ev = AbsEval(db, m, cfg, attr_hook=attr_hook)

    def records(nd) -> bool:
        return nd.ast is not None and nd.kind == "stmt" and any(
            isinstance(c, ast.Call) and call_attr(c) == "add" and "seen" in unparse(c.func.value) for c in ast.walk(nd.ast))
    if not any(records(nd) for nd in cfg.nodes):
        raise AnalysisError("IndexedCache.insert: recording of coverage (seen_set.add) not found")
    init = State({"index": TRUE}) if "index" in m.params else State({})
    p = ev.explore([(cfg.entry, init)], records, kinds=("n",))
    ok = p is None
    out.append(inst("INSERT-RETRIEVABLE", HOLDS if ok else VIOLATION, m, "IndexedCache.insert[index=True, no keys]",
                    "with an empty key list nothing is recorded as covered" if ok else
                    "with an empty key list insert() records the binding as covered although it has no level to store the output under: the "
                    "empty binding covers every lookup, so a comparison between two literals is answered from an empty cache from its second "
                    "row on (and_(p.k >= 1, contains([1, 2], 1)) returns one row, then none)", line=m.lineno))
    return out


# ---------------------------------------------------------------------------------- REPLAY-ONE-ENTRY
def rule_replay_one_entry(db: ProgramDB) -> List[Instance]:
    """'Each qualifying object once' under caching.  The result caches are indexes of ROWS.  The same result can be stored twice
    for one lookup: under the full row the operand yielded when it was evaluated and under the partial row it yielded when it
    was itself replayed from a cache (insert() files a row that lacks a key under the wildcard of that level, next to the
    rows that bind it), and the operators hand every retrieved entry on without a duplicate test.  As long as both hold, a
    lookup that leaves a key open must be answered from the wildcard child OR from the children that bind the key, never
    from both - otherwise the third evaluation of and_(A, x.colour == 'red') yields every object twice.
    (This is the engine's side of the recorded finding RETRIEVE-ALL-BRANCHES of C20; the rule is inert once insert() stops
    filing partial rows under wildcards or every replay de-duplicates.)"""
    out = []
    ic = db.cls("IndexedCache")
    ins, ret = ic.methods.get("insert"), ic.methods.get("retrieve")
    if ins is None or ret is None:
        raise AnalysisError("IndexedCache.insert / retrieve not found")
    p1 = any(isinstance(c, ast.Call) and call_attr(c) == "get" and len(c.args) == 2 and unparse(c.args[1]) in ("All", "ALL") for c in own_nodes(ins.node)) \
        or any(isinstance(x, ast.IfExp) and unparse(x.orelse) in ("All", "ALL") for x in own_nodes(ins.node))
    # P2: a replay loop over cache.retrieve() with a yield reachable from the loop head without passing a duplicate test
    p2 = None
    for fn in db.all_functions():
        if fn.cls is None or not fn.is_generator:
            continue
        loops = [x for x in own_nodes(fn.node) if isinstance(x, ast.For) and isinstance(x.iter, ast.Call) and call_attr(x.iter) == "retrieve"]
        if not loops:
            continue
        cfg = CFG(fn)
        for lp in loops:
            head = next((nd for nd in cfg.nodes if nd.kind == "for" and nd.stmt is lp), None)
            if head is None:
                continue

            def dup_test(nd):
                return nd.kind == "test" and nd.ast is not None and any(isinstance(c, ast.Call) and call_attr(c) == "_is_duplicate_output_" for c in ast.walk(nd.ast)) \
                    and not isinstance(getattr(nd.stmt, "test", None), ast.BoolOp)
            body_ids = {id(x) for s in lp.body for x in ast.walk(s)}
            p = cfg.find_path(head.id, lambda nd: nd.has_yield and nd.ast is not None and id(nd.ast) in body_ids, kinds=("n",), blocked=dup_test)
            if p is not None:
                p2 = fn
    if not p1 or p2 is None:
        out.append(inst("REPLAY-ONE-ENTRY", INFO, ret, "IndexedCache.retrieve[open key: one family of children]",
                        "not needed: " + ("insert() does not file partial rows under wildcards" if not p1 else "every replay loop de-duplicates what it retrieves")))
        return out
    cfg = CFG(ret)
    ap = "assignment" if "assignment" in ret.params else ret.positional_params[1]
    coll = _branches_collected(db, ret, ap, unbound=True)
    if coll is not None:
        res, where = coll
        with_wild = res[(False, True)] | res[(True, True)]
        bad_c = "all" in with_wild or ("wild" in with_wild and ("all-but-wild" in with_wild or "concrete" in with_wild))
        out.append(inst("REPLAY-ONE-ENTRY", VIOLATION if bad_c else HOLDS, ret, "IndexedCache.retrieve[open key: one family of children]",
                        f"when the lookup leaves a key open and an entry that leaves it open too exists, the children followed are {sorted(with_wild)}: the open entry AND the entries "
                        f"that bind the key - a result stored under a partial row and under the full row comes back as two different rows (the open one is completed "
                        f"with every value of the variable later), and {p2.short} hands both on: every object twice on the third evaluation of and_(x.w > 5, x.colour == 'red')" if bad_c else
                        "when the lookup leaves a key open, either the open entry or the entries that bind the key are followed", line=where))
        return out

    def excludes_wild(e) -> bool:
        src = cfg.nodes[e.src]
        if src.kind != "test" or not isinstance(getattr(src.stmt, "test", None), ast.Compare):
            return False
        t = src.stmt.test
        if len(t.ops) != 1:
            return False
        l, r, op = unparse(t.left), unparse(t.comparators[0]), t.ops[0]
        wild = ("All", "ALL")
        if l in wild and isinstance(op, ast.In):
            return e.label == "F"
        if l in wild and isinstance(op, ast.NotIn):
            return e.label == "T"
        if (r in wild or l in wild) and isinstance(op, (ast.IsNot, ast.NotEq)):
            return e.label == "T"
        if (r in wild or l in wild) and isinstance(op, (ast.Is, ast.Eq)):
            return e.label == "F"
        return False
    tests = [nd for nd in cfg.nodes if nd.kind == "test" and isinstance(nd.stmt, ast.If) and isinstance(nd.stmt.test, ast.Compare)
             and len(nd.stmt.test.ops) == 1 and isinstance(nd.stmt.test.ops[0], (ast.In, ast.NotIn)) and unparse(nd.stmt.test.comparators[0]) == ap]
    if not tests:
        raise AnalysisError("IndexedCache.retrieve: no branch on whether the lookup binds the current key found")
    for t in tests:
        unbound_label = "T" if isinstance(t.stmt.test.ops[0], ast.NotIn) else "F"
        bad = None
        for e in cfg.succ[t.id]:
            if e.kind != "n" or e.label != unbound_label:
                continue
            for lp in [nd for nd in cfg.nodes if nd.kind == "for" and "cache" in unparse(nd.stmt.iter) and unparse(nd.stmt.iter).split(".")[-1] in ("items()", "values()", "keys()")]:
                ok = lambda ed: ed.kind == "n" and not excludes_wild(ed)
                pa = [] if e.dst == lp.id else cfg.find_path(e.dst, lambda nd: nd.id == lp.id, kinds=("n",), edge_ok=ok)
                if pa is None:
                    continue
                body_ids = {id(x) for s in lp.stmt.body for x in ast.walk(s)}

                def descends(nd):
                    return nd.ast is not None and id(nd.ast) in body_ids and any(
                        isinstance(c, ast.Call) and call_attr(c) in ("_yield_result", "retrieve") for c in ast.walk(nd.ast)) or \
                        (nd.has_yield and nd.ast is not None and id(nd.ast) in body_ids)
                pb = cfg.find_path(lp.id, descends, kinds=("n",), edge_ok=ok)
                if pb is not None:
                    bad = [e] + pa + pb
        out.append(inst("REPLAY-ONE-ENTRY", VIOLATION if bad else HOLDS, ret, "IndexedCache.retrieve[open key: one family of children]",
                        "when the lookup leaves a key open, the loop over all children of the level is entered although a wildcard child may exist and descends "
                        "into it like into the others (" + " ".join(cfg.describe_path(bad)[:4]) + "): a result stored under a partial row (an operand "
                        f"replayed from its own cache) and under the full row is replayed twice by {p2.short} - the third evaluation of "
                        "and_(x.w > 5, x.colour == 'red') yields every object twice" if bad else
                        "when the lookup leaves a key open, either the wildcard child or the children that bind the key are followed", line=t.lineno))
    return out


# ---------------------------------------------------------------------------------- TRIE-NODE-TYPE
def rule_trie_node_type(db: ProgramDB) -> List[Instance]:
    """The index is a trie whose leaves hold arbitrary outputs - including dicts.  The reader tells an inner level from a leaf by
    its TYPE (`isinstance(child, CacheDict)`), so the writer has to create inner levels of exactly such a type: an inner level
    created as a plain dict is handed out as if it were the stored output."""
    out = []
    ic = db.cls("IndexedCache")
    ins = ic.methods.get("insert")
    if ins is None:
        raise AnalysisError("IndexedCache.insert not found")
    # reader: the class tested before descending
    reader_types: Set[str] = set()
    for m in ic.methods.values():
        if m.cls is not ic or m.name == "insert":
            continue
        for t in own_nodes(m.node):
            if isinstance(t, ast.If) and isinstance(t.test, ast.Call) and dotted(t.test.func) == "isinstance" and len(t.test.args) == 2 \
                    and any(isinstance(c, ast.Call) and call_attr(c) in ("retrieve", "_yield_result") for b in t.body for c in ast.walk(b)):
                a1 = t.test.args[1]
                reader_types |= {unparse(e) for e in (a1.elts if isinstance(a1, ast.Tuple) else [a1])}
    if not reader_types:
        # or the reader knows from the DEPTH where the outputs are (every entry is stored len(keys) levels down, open keys under the
        # wildcard): then nothing that is stored is ever inspected to find out what it is
        rd = ic.methods.get("retrieve")
        by_depth = [x for x in own_nodes(rd.node) if isinstance(x, ast.Compare) and len(x.ops) == 1 and isinstance(x.ops[0], (ast.Eq, ast.Lt, ast.GtE, ast.NotEq))
                    and any(isinstance(y, ast.Call) and dotted(y.func) == "len" for y in ast.walk(x)) and "key_idx" in unparse(x)] if rd is not None else []
        walks_all_levels = all(isinstance(a, ast.Assign) or True for a in [])   # (insert stores under the wildcard for open keys: INSERT-RETRIEVABLE)
        if by_depth:
            out.append(inst("TRIE-NODE-TYPE", HOLDS, rd, "IndexedCache.retrieve[outputs are found by depth]",
                            f"`{unparse(by_depth[0])}` decides where the outputs are: what is stored is never inspected to tell a level from an output", line=by_depth[0].lineno))
            return out
        raise AnalysisError("IndexedCache: neither a type test nor a depth test that tells an inner level from a stored output found in the readers")
    # writer: what is stored as a child and then descended into
    defs = local_defs(ins)
    n = 0
    # the nodes of the trie: self.cache and whatever is read out of / stored into one of them (by provenance, not by name)
    tries: Set[str] = {"self.cache"}
    changed = True
    while changed:
        changed = False
        for a in own_nodes(ins.node):
            if isinstance(a, ast.Assign) and len(a.targets) == 1 and isinstance(a.targets[0], ast.Name) and a.targets[0].id not in tries:
                v = a.value
                if unparse(v) in tries or (isinstance(v, ast.Subscript) and unparse(v.value) in tries) or \
                        (isinstance(v, ast.Call) and call_attr(v) in ("get", "setdefault") and unparse(v.func.value) in tries):
                    tries.add(a.targets[0].id)
                    changed = True
            if isinstance(a, ast.Assign) and len(a.targets) == 1 and isinstance(a.targets[0], ast.Subscript) and unparse(a.targets[0].value) in tries \
                    and isinstance(a.value, ast.Name) and a.value.id not in tries and a.value.id not in ins.params:
                tries.add(a.value.id)          # what is stored as a child and descended into later
                changed = True
    for a in own_nodes(ins.node):
        if not (isinstance(a, ast.Assign) and len(a.targets) == 1 and isinstance(a.targets[0], ast.Subscript) and unparse(a.targets[0].value) in tries):
            continue
        v = a.value
        cands = [v] if not isinstance(v, ast.Name) else [d for d in defs.get(v.id, []) if isinstance(d, ast.AST)]
        created = [d for d in cands if isinstance(d, (ast.Dict, ast.DictComp)) or (isinstance(d, ast.Call) and isinstance(d.func, ast.Name)
                                                                                   and (d.func.id in ("dict", "defaultdict", "OrderedDict") or db.class_by_name.get(d.func.id)))]
        for d in created:
            n += 1
            tname = "dict" if isinstance(d, (ast.Dict, ast.DictComp)) else d.func.id
            ok = tname in reader_types or any(db.class_by_name.get(tname) and db.cls(tname).is_subclass_of(rt) for rt in reader_types if db.class_by_name.get(rt))
            out.append(inst("TRIE-NODE-TYPE", HOLDS if ok else VIOLATION, ins, f"IndexedCache.insert[inner level created as {tname}]",
                            f"inner levels are {tname}, which the reader recognises ({', '.join(sorted(reader_types))})" if ok else
                            f"inner levels are created as `{unparse(d)}` but the reader descends only into {', '.join(sorted(reader_types))}: a lookup that "
                            f"ends above such a level is handed the level itself as the stored output (an index with more than two keys "
                            f"yields dicts of sub-indexes instead of results)", line=d.lineno))
    if n == 0:
        raise AnalysisError("IndexedCache.insert: creation of inner levels not found")
    return out


# ---------------------------------------------------------------------------------- KEYS-DERIVED-FRESH
_DERIVED_SAMPLE = '''
class K:
    def __post_init__(self):
        self.keys = self._keys
        self._fast = frozenset(self._keys)
    @property
    def keys(self):
        return self._keys
    @keys.setter
    def keys(self, keys):
        self._keys = list(sorted(keys))
'''


def _stale_derivations(cls_node: ast.ClassDef, field_names=("keys", "_keys")) -> List[Tuple[ast.Assign, str]]:
    """assignments `self.F = <expression over self.keys / self._keys>` outside the setter of `keys`, for an F the setter does not assign"""
    setter = None
    others = []
    for st in cls_node.body:
        if isinstance(st, (ast.FunctionDef,)):
            if any(unparse(d) == "keys.setter" for d in st.decorator_list):
                setter = st
            else:
                others.append(st)
    if setter is None:
        raise AnalysisError(f"class {cls_node.name}: the setter of `keys` was not found")
    assigned_in_setter = {t.attr for a in ast.walk(setter) if isinstance(a, (ast.Assign, ast.AugAssign, ast.AnnAssign))
                          for t in (a.targets if isinstance(a, ast.Assign) else [a.target]) if isinstance(t, ast.Attribute)
                          and isinstance(t.value, ast.Name) and t.value.id == "self"}
    bad = []
    for f in others:
        for a in ast.walk(f):
            if not isinstance(a, ast.Assign):
                continue
            for t in a.targets:
                if isinstance(t, ast.Attribute) and isinstance(t.value, ast.Name) and t.value.id == "self" and t.attr not in field_names:
                    reads = any(isinstance(x, ast.Attribute) and isinstance(x.value, ast.Name) and x.value.id == "self" and x.attr in field_names
                                for x in ast.walk(a.value))
                    if reads and t.attr not in assigned_in_setter:
                        bad.append((a, t.attr))
    return bad


def rule_keys_derived_fresh(db: ProgramDB) -> List[Instance]:
    """The key list of an index is assigned after construction (the operators set `cache.keys = …` in their __post_init__,
    class caches on first use); the setter re-sorts it and empties the index.  Anything computed FROM the key list and kept in
    another field therefore has to be recomputed by that setter, otherwise it describes the key list the index was
    constructed with (usually empty) - check() would filter every lookup down to the empty binding."""
    out = []
    ic = db.cls("IndexedCache")
    if not _stale_derivations(ast.parse(_DERIVED_SAMPLE).body[0]):
        raise AnalysisError("KEYS-DERIVED-FRESH: the built-in positive example is no longer recognised")
    bad = _stale_derivations(ic.node)
    for a, f in bad:
        out.append(inst("KEYS-DERIVED-FRESH", VIOLATION, ic, f"IndexedCache.{f}[derived from the key list]",
                        f"`{unparse(a)[:70]}` keeps something computed from the key list in `{f}`, and the setter of `keys` does not recompute it: after "
                        f"`cache.keys = [...]` (every operator does that after constructing its cache) `{f}` still describes the old key list, so "
                        f"lookups are filtered by the wrong keys - every binding looks covered by the first one stored", line=a.lineno))
    if not bad:
        out.append(inst("KEYS-DERIVED-FRESH", HOLDS, ic, "IndexedCache[nothing derived from the key list is kept outside its setter]",
                        "no field holds a value computed from the key list without the setter recomputing it (built-in positive example recognised)"))
    return out



# ---------------------------------------------------------------------------------- STORE-NO-ALIAS
def rule_store_no_alias(db: ProgramDB) -> List[Instance]:
    """What the index remembers as covered is the binding as it was when it was inserted.  The operators build their rows in
    dicts they go on using (a row is extended, merged into the next one, handed up): the coverage record must be a copy, not
    the caller's dict."""
    out = []
    ic = db.cls("IndexedCache")
    m = ic.methods.get("insert")
    if m is None:
        raise AnalysisError("IndexedCache.insert not found")
    adds = [c for c in own_calls(m) if call_attr(c) == "add" and isinstance(c.func.value, ast.Attribute) and c.func.value.attr == "seen_set" and c.args]
    if not adds:
        raise AnalysisError("IndexedCache.insert: recording of coverage (seen_set.add) not found")
    defs = local_defs(m)
    for c in adds:
        a = c.args[0]
        fresh = isinstance(a, (ast.Dict, ast.DictComp)) or (isinstance(a, ast.Call) and dotted(a.func) in ("dict", "copy", "copy.copy", "deepcopy"))
        if isinstance(a, ast.Name):
            ds = [d for d in defs.get(a.id, []) if isinstance(d, ast.AST)]
            fresh = bool(ds) and a.id not in m.params and all(isinstance(d, (ast.Dict, ast.DictComp)) or (isinstance(d, ast.Call) and dotted(d.func) in ("dict", "copy", "copy.copy", "deepcopy"))
                                                                for d in ds)
        out.append(inst("STORE-NO-ALIAS", HOLDS if fresh else VIOLATION, m, f"IndexedCache.insert[{unparse(c)[:50]}]",
                        "the coverage record is a copy of the inserted binding" if fresh else
                        f"`{unparse(c)}` keeps the caller's dict as the coverage record: when the caller goes on using that dict (extends the row, pops a key, "
                        f"clears it) bindings that were inserted stop being covered and bindings that never were start being covered, while retrieve() "
                        f"still returns what was stored", line=c.lineno))
    return out


def rule_retrieve_miss_wildcard(db: ProgramDB) -> List[Instance]:
    """The clause of RETRIEVE-ALL-BRANCHES that the operators' caches depend on whatever the walk prefers elsewhere: a lookup that
    binds a key to a value nothing is stored under still gets the entries that leave the key open."""
    out = []
    for i in rule_retrieve_all_branches(db):
        if "bound key absent" in i.construct:
            i.rule = "RETRIEVE-MISS-WILDCARD"
            out.append(i)
    if not out:
        raise AnalysisError("IndexedCache.retrieve: no test for 'the looked-up value is not stored' found")
    return out


# ---------------------------------------------------------------------------------- REPLAY-FALSE-ASKED
def rule_replay_false_asked(db: ProgramDB) -> List[Instance]:
    """A result cache holds the rows of every evaluation that filled it, the false rows of one that asked for them (the left side of
    an or_) included.  An evaluation that did not ask for false rows does not test the truth of what it is handed, so the replay
    itself drops false rows unless the evaluation it answers asked for them: (a) the replay helper skips a false row when it was
    not asked for; (b) every replay is told what the evaluating path it stands for tells the operand."""
    from ..boolexpr import eval_bool
    out = []
    bo = db.cls("BinaryOperator")
    helper = bo.methods.get("yield_final_output_from_cache")
    if helper is None:
        raise AnalysisError("BinaryOperator.yield_final_output_from_cache not found")
    loops = [l for l in own_nodes(helper.node) if isinstance(l, ast.For) and isinstance(l.iter, ast.Call) and call_attr(l.iter) == "retrieve"]
    if len(loops) != 1 or not (isinstance(loops[0].target, ast.Tuple) and len(loops[0].target.elts) == 2):
        raise AnalysisError("yield_final_output_from_cache: the loop over the retrieved (row, truth) pairs was not found")
    flag = unparse(loops[0].target.elts[1])
    asked = next((p for p in helper.params if "yield_when_false" in p or "false" in p.lower() and p != flag), None)

    def atom(e):
        u = unparse(e)
        if u == flag:
            return "F"
        if asked and u == asked:
            return "ASKED"
        if isinstance(e, ast.Call) and call_attr(e) == "_is_duplicate_output_":
            return "D"
        if isinstance(e, ast.Name) and e.id in helper.params:
            return "p:" + e.id
        return None
    skips = [i for i in ast.walk(loops[0]) if isinstance(i, ast.If) and i.body and isinstance(i.body[-1], ast.Continue)]
    ok_a = False
    for i in skips:
        try:
            env = {"F": True, "ASKED": False, "D": False}
            env.update({"p:" + p: False for p in helper.params})
            if bool(eval_bool(i.test, atom, env)):
                env2 = dict(env, ASKED=True)
                env3 = dict(env, F=False)
                if not bool(eval_bool(i.test, atom, env2)) and not bool(eval_bool(i.test, atom, env3)):
                    ok_a = True
        except (AnalysisError, KeyError):
            continue
    out.append(inst("REPLAY-FALSE-ASKED", HOLDS if ok_a else VIOLATION, helper, "BinaryOperator.yield_final_output_from_cache[false rows only when asked for]",
                    "a replayed false row is skipped when the evaluation that is answered did not ask for false rows" if ok_a else
                    "every stored row is handed on, false ones included, whatever the evaluation that is answered from the cache asked for: a comparison object that was "
                    "once the left side of an or_ (which stores its false rows) and is evaluated again inside a conjunction hands the conjunction false rows, which it "
                    "takes for true - c = l.a == x shared by or_(c, …) and and_(…, c, …): 9 rows with caching, 3 without", line=loops[0].lineno))
    # (b)
    n = 0
    se = db.cls("SymbolicExpression")
    for c in sorted(se.all_subclasses(), key=lambda k: k.qualname):
        for m in c.methods.values():
            if m.cls is not c or not m.is_generator:
                continue
            for call in own_calls(m):
                if call_attr(call) != "yield_final_output_from_cache":
                    continue
                n += 1
                amap = bind_args(fn_params(helper), call)
                given = amap.get(asked) if asked else None
                cexpr = amap.get("cache")
                # what the evaluating path tells the operand the cache stands for
                operand = None
                if cexpr is not None and isinstance(cexpr, ast.Attribute) and cexpr.attr.split("_")[0] in ("left", "right"):
                    operand = "self." + cexpr.attr.split("_")[0]
                want = None
                if operand is not None:
                    for ec in own_calls(m):
                        if call_attr(ec) in ("_evaluate__", "_evaluate_") and unparse(ec.func.value) == operand:
                            kw = bind_args(fn_params(se.methods["_evaluate__"]), ec).get("yield_when_false")
                            want = unparse(kw) if kw is not None else "False"
                else:
                    want = "yield_when_false" if "yield_when_false" in m.params else None
                ok = given is not None and want is not None and unparse(given) == want
                out.append(inst("REPLAY-FALSE-ASKED", HOLDS if ok else VIOLATION, m, f"{m.short}[{unparse(call)[:46]}]",
                                f"the replay is told `{unparse(given)}`, what the evaluating path tells {operand or 'itself'}" if ok else
                                f"`{unparse(call)[:70]}` is told `{unparse(given) if given is not None else 'nothing (default: hand on false rows)'}` where the evaluating path it "
                                f"stands for passes `{want}`: on a cache hit false rows are handed on that the evaluation would not have produced", line=call.lineno))
    if n < 4:
        raise AnalysisError(f"only {n} replay call(s) found")
    return out


# ---------------------------------------------------------------------------------- REPLAY-CHILD-DEDUP
def rule_replay_child_dedup(db: ProgramDB) -> List[Instance]:
    """Some operators suppress duplicates of their TRUE rows themselves while they are evaluated (an else-if: a binding its right side
    yields is dropped when what the parent keeps of it was seen before).  An operator that answers for such an operand from a cache
    replays what the operand yielded for that binding - and what it yields depends on what was seen before, which the cache does not
    record.  So wherever an operand can be of a class that suppresses true duplicates itself, a per-row replay of that operand's rows
    has to go through the operand's duplicate test too."""
    out = []
    se = db.cls("SymbolicExpression")
    # classes whose evaluation suppresses duplicates of true rows
    suppressing = []
    for c in se.all_subclasses():
        m = c.methods.get("_evaluate__")
        if m is None or m.cls is not c:
            continue
        for i in [x for x in own_nodes(m.node) if isinstance(x, ast.If)]:
            if any(isinstance(y, ast.Call) and call_attr(y) == "_is_duplicate_output_" for y in ast.walk(i.test)) and i.body and isinstance(i.body[-1], ast.Continue):
                # guarded by 'the row is true'?
                from ..boolexpr import guards_of
                g = guards_of(i, m.node.body) or []
                if any(isinstance(t, ast.UnaryOp) and isinstance(t.op, ast.Not) and "_is_false_" in unparse(t.operand) and pol for t, pol in g) or \
                        any("_is_false_" in unparse(t) and not pol for t, pol in g):
                    suppressing.append(c)
    suppressing = sorted({c.name for c in suppressing})
    if not suppressing:
        out.append(inst("REPLAY-CHILD-DEDUP", INFO, se, "operators[operand that suppresses true duplicates itself]", "no operator suppresses duplicates of its true rows itself"))
        return out
    n = 0
    for c in sorted(se.all_subclasses(), key=lambda k: k.qualname):
        m = c.methods.get("_evaluate__")
        if m is None or m.cls is not c or not m.is_generator:
            continue
        for call in own_calls(m):
            if call_attr(call) != "yield_final_output_from_cache":
                continue
            helper = c.lookup("yield_final_output_from_cache")
            amap = bind_args(fn_params(helper), call)
            cexpr = amap.get("cache")
            if not (cexpr is not None and isinstance(cexpr, ast.Attribute) and cexpr.attr.split("_")[0] in ("left", "right")):
                continue
            side = cexpr.attr.split("_")[0]
            # a class (and every subclass that inherits this method) that never caches never replays
            from ..facts import cache_switch_value_for
            users = [k for k in [c] + c.all_subclasses() if k.lookup("_evaluate__") is m or k.is_subclass_of(c)]
            if all(cache_switch_value_for(db, k, "_caching_enabled_") == "off" for k in users):
                out.append(inst("REPLAY-CHILD-DEDUP", INFO, m, f"{m.short}[replay of self.{side}: an operand that suppresses true duplicates itself]",
                                "this class never consults its caches (_caching_enabled_ is constantly False)", line=call.lineno))
                continue
            n += 1
            # the operand field's declared type admits a suppressing class?
            fld = c.field(side)
            admits = True      # operands are arbitrary conditions
            asks_child = any(isinstance(x, ast.Call) and call_attr(x) == "_is_duplicate_output_" and unparse(x.func.value) == f"self.{side}" for x in own_nodes(m.node)) or \
                any(k.arg and "operand" in k.arg for k in call.keywords)
            own_test = amap.get("suppress_true_duplicates")
            if not asks_child and own_test is not None and isinstance(own_test, ast.Constant) and own_test.value is True:
                out.append(inst("REPLAY-CHILD-DEDUP", INFO, m, f"{m.short}[replay of self.{side}: an operand that suppresses true duplicates itself]",
                                "not decided: the replay applies this operator's own duplicate test to every true row (suppress_true_duplicates=True), whose key is "
                                "computed from the same parent chain as the operand's; no failing input is known", line=call.lineno))
                continue
            ok = not admits or asks_child
            out.append(inst("REPLAY-CHILD-DEDUP", HOLDS if ok else VIOLATION, m, f"{m.short}[replay of self.{side}: an operand that suppresses true duplicates itself]",
                            f"the replay goes through self.{side}'s own duplicate test" if ok else
                            f"self.{side} can be a {' / '.join(suppressing)}, which drops a true row when what the parent keeps of it was seen before; the replay of its rows from "
                            f"self.{cexpr.attr} hands on what it yielded for the binding the cache entry was made for, without that test: the number of rows differs "
                            f"between caching on and off and between the first and later evaluations", line=call.lineno))
    if n == 0:
        raise AnalysisError("no per-operand replay found")
    return out


# ---------------------------------------------------------------------------------- RETRIEVE-TRIE-ONLY / COVERAGE-MONOTONE
def rule_retrieve_trie_only(db: ProgramDB) -> List[Instance]:
    """Retrieval answers from what is STORED, coverage answers which lookups need no evaluation: two relations.  A stored binding
    agrees with a lookup when they agree on the keys they share; it covers the lookup only when it is contained in it.  A retrieve()
    that consults the coverage record (self.check / self.seen_set) returns nothing for a lookup that binds fewer keys than the
    stored bindings - which is what the registry of instances and a comparison entered with an unbound operand ask for.  Effect
    rule: retrieve() and every method of the index it calls read none of the coverage state."""
    out = []
    ic = db.cls("IndexedCache")
    m = ic.methods.get("retrieve")
    if m is None:
        raise AnalysisError("IndexedCache.retrieve not found")
    cov_fields = {f.name for f in ic.fields() if f.annotation is not None and "SeenSet" in unparse(f.annotation)}
    if not cov_fields:
        raise AnalysisError("IndexedCache: no field of type SeenSet")
    cov_methods = set()
    for name, meth in ic.methods.items():
        if name in ("insert", "clear", "__init__", "__post_init__"):
            continue
        reads = {n.attr for n in own_nodes(meth.node) if isinstance(n, ast.Attribute) and isinstance(n.value, ast.Name) and n.value.id == "self"}
        if reads & cov_fields and name != "retrieve":
            cov_methods.add(name)
    seen, todo = set(), ["retrieve"]
    while todo:
        name = todo.pop()
        if name in seen or name not in ic.methods:
            continue
        seen.add(name)
        meth = ic.methods[name]
        bad = None
        for n in own_nodes(meth.node):
            if isinstance(n, ast.Attribute) and isinstance(n.value, ast.Name) and n.value.id == "self":
                if n.attr in cov_fields or (n.attr in cov_methods and name not in cov_methods):
                    bad = n
                    break
                if n.attr in ic.methods and n.attr not in seen:
                    todo.append(n.attr)
        out.append(inst("RETRIEVE-TRIE-ONLY", VIOLATION if bad is not None else HOLDS, meth, f"IndexedCache.{name}[reads no coverage state]",
                        "reads only the stores" if bad is None else
                        f"`{unparse(bad)}` (line {bad.lineno}) makes what retrieve() returns depend on the coverage record: a lookup that binds fewer keys "
                        f"than the stored bindings is covered by none of them although every one of them agrees with it, so the stored entries "
                        f"are not returned (a variable ranging over the instance registry, a comparison entered with an unbound operand)",
                        line=getattr(bad, "lineno", meth.lineno)))
    return out


def _per_key_test(e: ast.AST, container: str, kn: str, vn: str, case: str):
    """Value of a per-key containment test `e` over (kn, vn) pairs of one binding against the binding `container` when that binds
    kn to the same value / to another value / not at all.  Raises KeyError (the test would) or LookupError(text) (outside the table)."""
    def ev(e):
        if isinstance(e, ast.Constant):
            return e.value
        if isinstance(e, ast.Name):
            if e.id == vn:
                return "V"
            raise LookupError(unparse(e))
        if isinstance(e, ast.Subscript) and unparse(e.value) == container and unparse(e.slice) == kn:
            if case == "missing":
                raise KeyError
            return "V" if case == "same" else "W"
        if isinstance(e, ast.Call) and call_attr(e) == "get" and unparse(e.func.value) == container and e.args and unparse(e.args[0]) == kn:
            if case == "missing":
                return ev(e.args[1]) if len(e.args) > 1 else None
            return "V" if case == "same" else "W"
        if isinstance(e, ast.Compare) and len(e.ops) == 1:
            if isinstance(e.ops[0], (ast.In, ast.NotIn)) and unparse(e.left) == kn and unparse(e.comparators[0]) in (container, f"{container}.keys()"):
                r = case != "missing"
                return r if isinstance(e.ops[0], ast.In) else not r
            l, r = ev(e.left), ev(e.comparators[0])
            if isinstance(e.ops[0], (ast.Eq, ast.Is)):
                return l == r
            if isinstance(e.ops[0], (ast.NotEq, ast.IsNot)):
                return l != r
        if isinstance(e, ast.IfExp):
            return ev(e.body) if ev(e.test) else ev(e.orelse)
        if isinstance(e, ast.BoolOp):
            r = isinstance(e.op, ast.And)
            for x in e.values:
                r = ev(x)
                if bool(r) != isinstance(e.op, ast.And):
                    return r
            return r
        if isinstance(e, ast.UnaryOp) and isinstance(e.op, ast.Not):
            return not ev(e.operand)
        raise LookupError(unparse(e))
    return ev(e)


def rule_coverage_monotone(db: ProgramDB) -> List[Instance]:
    """'After ANY sequence of insertions … a coverage check succeeds exactly when SOME stored binding is contained in the lookup':
    a binding that was recorded stays recorded until clear().  Outside clear(), the record is only appended to; a method that
    drops records is accepted only when it drops exactly the ones the new binding makes redundant - those that CONTAIN the new
    binding (whatever they cover, the new one covers) - decided with the same per-key table as the coverage test, roles swapped.
    Dropping the records the new binding contains (the more general ones) loses coverage of every lookup they covered and the
    new one does not."""
    out = []
    ss = db.cls("SeenSet")
    store_fields = [f.name for f in ss.fields() if f.annotation is not None and any(w in unparse(f.annotation) for w in ("List", "list", "Set", "set"))]
    if not store_fields:
        raise AnalysisError("SeenSet: no collection field found")
    n_sites = 0
    for name, meth in ss.methods.items():
        if name in ("clear", "__init__", "__post_init__"):
            continue
        params = [a for a in meth.positional_params[1:]]
        for n in own_nodes(meth.node):
            target = None
            if isinstance(n, (ast.Assign, ast.AugAssign, ast.AnnAssign)):
                tg = n.targets if isinstance(n, ast.Assign) else [n.target]
                for t in tg:
                    if isinstance(t, ast.Attribute) and unparse(t.value) == "self" and t.attr in store_fields:
                        target = ("assign", t.attr, n)
                    if isinstance(t, ast.Subscript) and isinstance(t.value, ast.Attribute) and unparse(t.value.value) == "self" and t.value.attr in store_fields:
                        target = ("assign", t.value.attr, n)
            elif isinstance(n, ast.Delete):
                for t in n.targets:
                    if any(isinstance(x, ast.Attribute) and unparse(x.value) == "self" and x.attr in store_fields for x in ast.walk(t)):
                        target = ("del", "", n)
            elif isinstance(n, ast.Call) and isinstance(n.func, ast.Attribute) and isinstance(n.func.value, ast.Attribute) \
                    and unparse(n.func.value.value) == "self" and n.func.value.attr in store_fields:
                if n.func.attr in ("append", "add", "extend", "update", "insert"):
                    n_sites += 1
                    out.append(inst("COVERAGE-MONOTONE", HOLDS, meth, f"SeenSet.{name}[{unparse(n)[:50]}]", "adds to the record", line=n.lineno))
                    continue
                if n.func.attr in ("remove", "pop", "clear", "discard", "difference_update", "intersection_update"):
                    target = ("call", n.func.attr, n)
            if target is None:
                continue
            n_sites += 1
            kind, _, node = target
            verdict, why = VIOLATION, f"`{unparse(node)[:80]}` takes recorded bindings out of the coverage record outside clear()"
            if kind == "assign" and isinstance(node, (ast.Assign, ast.AugAssign)):
                # re-binding the record to itself plus something only adds: self.seen = self.seen + [a] / [*self.seen, a] / self.seen += [a]
                v = node.value
                me = {f"self.{f}" for f in store_fields}
                grows = isinstance(node, ast.AugAssign) and isinstance(node.op, (ast.Add, ast.BitOr))
                if isinstance(v, ast.BinOp) and isinstance(v.op, (ast.Add, ast.BitOr)) and (unparse(v.left) in me or unparse(v.right) in me):
                    grows = True
                if isinstance(v, (ast.List, ast.Set, ast.Tuple)) and any(isinstance(e, ast.Starred) and unparse(e.value) in me for e in v.elts):
                    grows = True
                if grows:
                    out.append(inst("COVERAGE-MONOTONE", HOLDS, meth, f"SeenSet.{name}[{unparse(node)[:50]}]", "adds to the record", line=node.lineno))
                    continue
                if not isinstance(v, ast.ListComp):
                    verdict, why = UNDECIDED, f"`{unparse(node)[:80]}` rebinds the coverage record in a way that is not in the accepted table"
            if kind == "assign" and isinstance(node, ast.Assign) and isinstance(node.value, ast.ListComp) and len(node.value.generators) == 1:
                g = node.value.generators[0]
                if isinstance(g.target, ast.Name) and isinstance(node.value.elt, ast.Name) and node.value.elt.id == g.target.id \
                        and unparse(g.iter) in {f"self.{f}" for f in store_fields} and len(g.ifs) == 1:
                    c = g.target.id
                    cond = g.ifs[0]
                    drop_if = cond.operand if isinstance(cond, ast.UnaryOp) and isinstance(cond.op, ast.Not) else None
                    if drop_if is not None and isinstance(drop_if, ast.Call) and dotted(drop_if.func) == "all" and drop_if.args \
                            and isinstance(drop_if.args[0], (ast.GeneratorExp, ast.ListComp)):
                        comp = drop_if.args[0]
                        gg = comp.generators[0]
                        if isinstance(gg.target, ast.Tuple) and len(gg.target.elts) == 2 and all(isinstance(e, ast.Name) for e in gg.target.elts) \
                                and not gg.ifs and isinstance(gg.iter, ast.Call) and call_attr(gg.iter) == "items":
                            over = unparse(gg.iter.func.value)
                            kn, vn = gg.target.elts[0].id, gg.target.elts[1].id
                            if over in params:
                                # pairs of the NEW binding tested against the record c: dropped when new is contained in c - redundant
                                try:
                                    got = {case: bool(_per_key_test(comp.elt, c, kn, vn, case)) for case in ("same", "other", "missing")}
                                except KeyError:
                                    got = None
                                except LookupError as u:
                                    got = None
                                    verdict, why = UNDECIDED, f"`{unparse(comp.elt)}`: `{u}` is outside the accepted table"
                                if got == {"same": True, "other": False, "missing": False}:
                                    verdict, why = HOLDS, (f"drops only records that contain the new binding `{over}` (per-key test exact): "
                                                           f"what they cover the new binding covers")
                                elif got is not None:
                                    verdict, why = VIOLATION, (f"`{unparse(node)[:90]}` drops a record when {got}: not exactly the records that contain the new "
                                                               f"binding, lookups those records covered are no longer covered")
                            elif over == c:
                                verdict, why = VIOLATION, (f"`{unparse(node)[:110]}` drops the records that are CONTAINED in the new binding `{params[0] if params else '?'}` - the "
                                                           f"more general ones: every lookup they covered that does not also contain the new binding is no longer "
                                                           f"covered, the operator evaluates again what it has cached and the rows come back twice (or, for the duplicate "
                                                           f"filter, a row seen before is yielded again)")
                    elif drop_if is None:
                        verdict, why = UNDECIDED, f"`{unparse(node)[:80]}`: a filter over the record that is not `not all(… for k, v in ….items())`"
            out.append(inst("COVERAGE-MONOTONE", verdict, meth, f"SeenSet.{name}[record only grows]", why, line=node.lineno))
    if not n_sites:
        raise AnalysisError("SeenSet: no site that writes the coverage record found")
    return out


# ---------------------------------------------------------------------------------- REPLAY-OR-EVALUATE
def _replay_helper_names(db: ProgramDB) -> Set[str]:
    bo = db.cls("BinaryOperator")
    names = set()
    for c in [bo] + bo.all_subclasses():
        for m in c.methods.values():
            if not m.is_generator:
                continue
            for loop in [n for n in own_nodes(m.node) if isinstance(n, ast.For)]:
                if isinstance(loop.iter, ast.Call) and call_attr(loop.iter) == "retrieve" and any(
                        isinstance(n, ast.Yield) and n.value is not None and not isinstance(n.value, ast.Tuple) for n in ast.walk(loop)):
                    names.add(m.name)
    return names


def rule_replay_or_evaluate(db: ProgramDB) -> List[Instance]:
    """For each row of its first operand an operator EITHER replays the second operand's rows from the cache OR evaluates the second
    operand - one of the two, and then it goes on with the next row.  Path rule on the statement CFG of every per-row replay site:
    from the replay, every (non-exceptional) path reaches the head of the row loop again before it reaches an evaluation of an
    operand (falling through: the rows come twice, once replayed and once evaluated) and before it leaves the function (the
    remaining rows of the first operand are lost)."""
    out = []
    helpers = _replay_helper_names(db)
    if not helpers:
        raise AnalysisError("no cache-replay helper found")
    se = db.cls("SymbolicExpression")
    n = 0
    for c in sorted(se.all_subclasses(), key=lambda k: k.qualname):
        for m in c.methods.values():
            if m.cls is not c or not m.is_generator:
                continue
            sites = [call for call in own_calls(m) if call_attr(call) in helpers and isinstance(call.func.value, ast.Name) and call.func.value.id == "self"]
            if not sites:
                continue
            cfg = None
            for call in sites:
                # innermost enclosing for loop
                anc = []
                x = call
                while x is not None and x is not m.node:
                    x = db.parent(x)
                    if isinstance(x, ast.For):
                        anc.append(x)
                if not anc:
                    continue          # a replay for the whole incoming binding (Comparator): followed by return, by design
                loop = anc[0]
                if cfg is None:
                    cfg = CFG(m)
                st = call
                while not isinstance(st, ast.stmt):
                    st = db.parent(st)
                starts = [nd for nd in cfg.nodes if nd.ast is st or (nd.stmt is st and nd.kind == "stmt")]
                heads = {nd.id for nd in cfg.nodes if nd.kind == "for" and nd.stmt is loop}
                if not starts or not heads:
                    raise AnalysisError(f"{m.short}: replay site or its row loop not found in the CFG")
                n += 1

                def evaluates_operand(nd):
                    return nd.ast is not None and nd.kind in ("stmt", "for", "return", "test") and nd.id not in {s_.id for s_ in starts} and nd.id not in heads and any(
                        isinstance(y, ast.Call) and isinstance(y.func, ast.Attribute) and y.func.attr.startswith("_evaluate") and
                        isinstance(y.func.value, ast.Attribute) and unparse(y.func.value.value) == "self"
                        for y in ast.walk(nd.ast if nd.kind != "for" else nd.ast.iter))
                p1 = p2 = None
                for s0 in starts:
                    p1 = p1 or cfg.find_path(s0.id, evaluates_operand, kinds=("n",), blocked=lambda nd: nd.id in heads)
                    p2 = p2 or cfg.find_path(s0.id, lambda nd: nd.kind in ("exit", "return"), kinds=("n",), blocked=lambda nd: nd.id in heads)
                key = f"{m.short}[{unparse(call)[:46]}]"
                if p1 is not None:
                    out.append(inst("REPLAY-OR-EVALUATE", VIOLATION, m, key,
                                    f"after replaying the cached rows for this row of the first operand the code goes on to "
                                    f"`{cfg.nodes[p1[-1].dst].src()[:70]}` ({' '.join(cfg.describe_path(p1)[-3:])}): the operand is evaluated as well and its rows are "
                                    f"yielded a second time (with every variable selected the row count is no longer the number of satisfying assignments)", line=call.lineno))
                elif p2 is not None:
                    out.append(inst("REPLAY-OR-EVALUATE", VIOLATION, m, key,
                                    f"after replaying the cached rows for this row of the first operand the generator ends "
                                    f"({' '.join(cfg.describe_path(p2)[-3:])}): the remaining rows of the first operand are never looked at - once a binding of "
                                    f"the second operand recurs, the rest of the join is lost", line=call.lineno))
                else:
                    out.append(inst("REPLAY-OR-EVALUATE", HOLDS, m, key, "after the replay every path goes on with the next row of the first operand", line=call.lineno))
    if n == 0:
        raise AnalysisError("no per-row cache replay site found")
    return out

