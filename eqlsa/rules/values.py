"""
C19 VALUE-TRUTH: in which positions may a value's truthiness decide whether a row survives.

(a) filter sites: generators that drop a binding depending on the truthiness of a computed value
(b) roles: every evaluation call site is classified by the role of its receiver (value vs condition)
(c) obligation: at every value-role site whose possible callees include a filter site, the filter is off
"""
from __future__ import annotations

import ast
import itertools
from typing import Dict, List, Optional, Set, Tuple

from ..db import ProgramDB, FuncInfo, ClassInfo, AnalysisError, unparse, own_nodes, dotted
from ..facts import own_calls, call_attr, returns_of, fn_params, bind_args, strip_docstring, local_defs
from ..cfg import CFG
from ..framework import inst, HOLDS, VIOLATION, UNDECIDED, INFO, Instance
from ..evalsites import site_model, EvalSite, is_eval_name

ROLE_OVERRIDES: Dict[Tuple[str, str], Tuple[str, str]] = {
    ("ForAll", "left"): ("value", "the universal expression: its values are enumerated, not tested"),
    ("ForAll", "right"): ("condition", "the quantified condition"),
    ("Variable", "_child_vars_"): ("value", "constructor / predicate arguments"),
    ("Conclusion", "value"): ("value", "the value a conclusion assigns"),
    ("Conclusion", "var"): ("value", "the variable a conclusion assigns to"),
    ("Variable", "_kwargs_expression_"): ("condition", "field constraints of a predicate-form term"),
}


def role_of_origin(db: ProgramDB, fn: FuncInfo, origin: str) -> Tuple[str, str]:
    if origin in ("self", "super"):
        return "delegate", "delegation to another evaluation method of the same node"
    if origin.startswith("param:domain") or origin.endswith("_domain_source_.domain"):
        return "value", "a domain given as an expression: what it evaluates to are the members of the domain"
    if "._conclusion_" in origin:
        return "conclusion", "application of a conclusion to the binding"
    if any(w in origin for w in ("._unique_variables_", "._all_variable_instances_")):
        return "value", "a variable of an expression (taken from its set of variables): its values are enumerated to complete a binding, not tested"
    if origin.startswith("self.") and fn.cls is not None:
        fname = origin[5:].split("[")[0].split(".")[0]
        for c in fn.cls.mro:
            if (c.name, fname) in ROLE_OVERRIDES:
                return ROLE_OVERRIDES[(c.name, fname)]
        for c in fn.cls.mro:
            for f in c.own_fields:
                if f.name == fname:
                    classes = db.annotation_classes(c.module, f.annotation)
                    names = {k.name for k in classes}
                    cbv = db.cls("CanBehaveLikeAVariable")
                    if any(k.is_subclass_of(cbv) and not k.is_subclass_of("ResultQuantifier")
                           and not k.is_subclass_of("QueryObjectDescriptor") for k in classes):
                        return "value", f"field `{c.name}.{fname}` is annotated `{f.annotation_src}`"
                    if classes:
                        return "condition", f"field `{c.name}.{fname}` is annotated `{f.annotation_src}`"
                    return "unknown", f"field `{c.name}.{fname}` has no expression-class annotation"
    return "unknown", f"receiver origin `{origin}` not resolved to a field"


def site_role(db: ProgramDB, s: EvalSite) -> Tuple[str, str]:
    roles = {role_of_origin(db, s.fn, o) for o in s.origins}
    kinds = {r for r, _ in roles}
    if len(kinds) == 1:
        return next(iter(roles))
    if kinds <= {"value", "delegate"} and "value" in kinds:
        return [r for r in roles if r[0] == "value"][0]
    return "unknown", f"mixed roles {sorted(kinds)} for {s.origins}"


def truthiness_filter_owners(db: ProgramDB) -> List[Tuple[FuncInfo, ast.AST, str]]:
    """Evaluation code in which the truthiness of a produced *value* is tested (`x.value` / bool(<output>) in a
    boolean position) to decide _is_false_ / whether to yield."""
    out = []
    se = db.cls("SymbolicExpression")
    for c in se.all_subclasses():
        for m in c.methods.values():
            if not (m.is_generator and m.cls is c):
                continue
            tests = []
            for n in own_nodes(m.node):
                if isinstance(n, (ast.If, ast.IfExp, ast.While)):
                    tests.append(n.test)
                elif isinstance(n, ast.Call) and dotted(n.func) == "bool" and n.args:
                    tests.append(n.args[0])
                elif isinstance(n, ast.Assign) and isinstance(n.value, (ast.BoolOp, ast.UnaryOp, ast.Compare)):
                    tests.append(n.value)
            for t in tests:
                for x in _boolean_leaves(t):
                    if isinstance(x, ast.Attribute) and x.attr == "value" and isinstance(x.value, ast.Name):
                        out.append((m, x, f"truthiness of `{unparse(x)}`"))
                    elif isinstance(x, ast.Name) and x.id in m.positional_params[1:2] and "output" in x.id:
                        out.append((m, x, f"truthiness of `{x.id}`"))
    return out


def _boolean_leaves(e: ast.AST):
    if isinstance(e, ast.BoolOp):
        for v in e.values:
            yield from _boolean_leaves(v)
    elif isinstance(e, ast.UnaryOp) and isinstance(e.op, ast.Not):
        yield from _boolean_leaves(e.operand)
    elif isinstance(e, ast.IfExp):
        yield from _boolean_leaves(e.test)
        yield from _boolean_leaves(e.body)
        yield from _boolean_leaves(e.orelse)
    elif isinstance(e, ast.Call) and dotted(e.func) == "bool" and e.args:
        yield from _boolean_leaves(e.args[0])
    elif isinstance(e, ast.Compare) and len(e.ops) == 1 and isinstance(e.ops[0], (ast.NotEq, ast.Eq)) \
            and any(isinstance(x, ast.Call) and dotted(x.func) == "bool" for x in [e.left] + e.comparators):
        for x in [e.left] + e.comparators:
            yield from _boolean_leaves(x)
    else:
        yield e


def value_entry_methods(db: ProgramDB, filter_classes: List[ClassInfo], conditional: Dict[str, ast.AST] = None) -> Dict[str, Tuple[bool, str]]:
    """Methods of SymbolicExpression of the shape
           def M(self, sources=None): return self._evaluate__(sources, yield_when_false=self.<ATTR>)
       -> {M: (ok, explanation)}; ok iff ATTR is True for every class that owns a value-truthiness filter and False for
       every other expression class."""
    se = db.cls("SymbolicExpression")
    res: Dict[str, Tuple[bool, str]] = {}
    for name, m in se.methods.items():
        if not is_eval_name(name) or m.is_generator or name == "_evaluate__":
            continue
        body = strip_docstring(m.node.body)
        if len(body) != 1 or not isinstance(body[0], ast.Return) or not isinstance(body[0].value, ast.Call):
            continue
        call = body[0].value
        if call_attr(call) != "_evaluate__" or not (isinstance(call.func.value, ast.Name) and call.func.value.id == "self"):
            continue
        proto = se.methods["_evaluate__"]
        amap = bind_args(fn_params(proto), call)
        y = amap.get("yield_when_false")
        b = amap.get("sources")
        if y is None or b is None or not (isinstance(b, ast.Name) and b.id in m.params):
            continue
        if not (isinstance(y, ast.Attribute) and isinstance(y.value, ast.Name) and y.value.id == "self"):
            if isinstance(y, ast.Constant) and y.value is True:
                res[name] = (False, "passes yield_when_false=True to every class, sub-queries and operators included")
            continue
        attr = y.attr
        # per-class constant
        bad = []
        fset = {c.qualname for fc in filter_classes for c in fc.all_subclasses()}
        cond_classes = {c.qualname: cnd for k, cnd in (conditional or {}).items() for c in [db.classes[k]] + db.classes[k].all_subclasses()
                        if not any(attr in kk.class_attrs and kk is not se for kk in c.mro[:c.mro.index(db.classes[k])] )}
        for c in se.all_subclasses():
            val = None
            for k in c.mro:
                if attr in k.class_attrs:
                    v = k.class_attrs[attr]
                    val = v.value if isinstance(v, ast.Constant) else "?"
                    break
                hit = [f for f in k.own_fields if f.name == attr]
                if hit:
                    v = hit[0].default
                    val = v.value if isinstance(v, ast.Constant) else "?"
                    break
            want = c.qualname in fset
            if c.qualname in cond_classes:
                # the truth of this class's rows is the truthiness of a value under a condition (a variable that stands for a predicate): the
                # attribute has to say so exactly then - a property that returns that condition
                cond = cond_classes[c.qualname]
                prop = None
                for k in c.mro:
                    if attr in k.methods and k.methods[attr].is_property:
                        rets = [r.value for r in own_nodes(k.methods[attr].node) if isinstance(r, ast.Return) and r.value is not None]
                        prop = rets[0] if len(rets) == 1 else None
                        break
                    if attr in k.class_attrs or [f for f in k.own_fields if f.name == attr]:
                        break

                def core(e):
                    if isinstance(e, ast.Call) and dotted(e.func) == "bool" and e.args:
                        e = e.args[0]
                    if isinstance(e, ast.Compare) and len(e.ops) == 1 and isinstance(e.ops[0], ast.IsNot) and isinstance(e.comparators[0], ast.Constant) \
                            and e.comparators[0].value is None:
                        e = e.left
                    return unparse(e)
                if prop is None or not (core(prop) == core(cond) or (isinstance(prop, ast.Constant) and prop.value is True)):
                    bad.append(f"{c.name}.{attr} is {unparse(prop) if prop is not None else val} (required: true whenever `{unparse(cond)}`, i.e. whenever the truth of "
                               f"the row is the truthiness of the output - double(x.n) == 0 compares nothing otherwise)")
                continue
            if val is not want:
                bad.append(f"{c.name}.{attr}={val} (required {want})")
        res[name] = (not bad, f"`{name}` evaluates with yield_when_false=self.{attr}; " +
                     (f"{attr} is True exactly for the classes whose falseness is value truthiness" if not bad else
                      f"wrong constants: {bad[:4]}"))
    return res


def rule_value_truth(db: ProgramDB) -> List[Instance]:
    out = []
    model = site_model(db)
    owners = truthiness_filter_owners(db)
    dm = db.cls("DomainMapping")
    value_filter_classes = sorted({m.cls for m, _, _ in owners if m.cls.is_subclass_of(dm)}, key=lambda c: c.name)
    for m, x, what in owners:
        if m.cls.is_subclass_of(dm):
            out.append(inst("VALUE-TRUTH", INFO, m, f"filter-site[{m.short}]",
                            f"{what} decides whether the row survives unless false rows were requested", line=x.lineno))
        else:
            out.append(inst("VALUE-TRUTH", INFO, m, f"filter-site[{m.short}]",
                            f"{what} decides the truth of the row of a predicate; where the output is used as a value the false rows are asked for "
                            f"(see the value entry)", line=x.lineno))
    if not value_filter_classes:
        out.append(inst("VALUE-TRUTH", INFO, "", "no-value-filter",
                        "no mapping class filters rows by the truthiness of the mapped value: nothing to switch off"))
    # a class whose rows are true or false by the truthiness of an output under a condition (`bool(out) if self._predicate_type_ else True`)
    conditional: Dict[str, ast.AST] = {}
    for m, x, what in owners:
        if m.cls.is_subclass_of(dm):
            continue
        for n in own_nodes(m.node):
            if isinstance(n, ast.IfExp) and any(y is x for y in ast.walk(n.body)) and isinstance(n.orelse, ast.Constant) and n.orelse.value is True:
                conditional[m.cls.qualname] = n.test
    entries = value_entry_methods(db, value_filter_classes, conditional)
    n_value = 0
    for s in model.sites:
        role, why = site_role(db, s)
        if role == "unknown":
            out.append(inst("VALUE-TRUTH", UNDECIDED, s.fn, s.key, f"role of the receiver not determined: {why}", line=s.line))
            continue
        if role != "value":
            continue
        n_value += 1
        if not value_filter_classes:
            out.append(inst("VALUE-TRUTH", HOLDS, s.fn, s.key, f"value role ({why}); no truthiness filter exists", line=s.line))
            continue
        if s.method in entries:
            ok, expl = entries[s.method]
            out.append(inst("VALUE-TRUTH", HOLDS if ok else VIOLATION, s.fn, s.key,
                            f"value role ({why}): {expl}", line=s.line))
            continue
        if s.ywf == ("const", True):
            out.append(inst("VALUE-TRUTH", VIOLATION, s.fn, s.key,
                            f"value role ({why}): yield_when_false=True is passed to whatever the operand is; a sub-query "
                            f"or condition in that position would let its non-solutions through", line=s.line))
            continue
        fc = ", ".join(c.name for c in value_filter_classes)
        out.append(inst("VALUE-TRUTH", VIOLATION, s.fn, s.key,
                        f"value role ({why}), evaluated with false rows not requested: when the operand is an attribute / "
                        f"index / call / flattened element ({fc} filter rows by the truthiness of the mapped value) the "
                        f"rows whose value is 0, '', [], None or False are dropped before they are compared, selected or "
                        f"passed on", line=s.line))
    if n_value < 8:
        out.append(inst("VALUE-TRUTH", UNDECIDED, "", "value-role-sites",
                        f"only {n_value} value-role evaluation sites found (13 confirmed by reading): roles not resolved"))
    return out


def rule_reentrant_flag(db: ProgramDB) -> List[Instance]:
    """An expression object can be in two positions of one query (v = x.val used as an operand and as a condition), so a
    mapping generator can be re-entered while it is suspended.  Its per-call request 'also yield false rows' must therefore
    be read from the call's own argument; the copy kept on the object is overwritten by the re-entry."""
    out = []
    owners = truthiness_filter_owners(db)
    dm = db.cls("DomainMapping")
    gens = sorted({m for m, _, _ in owners if m.cls.is_subclass_of(dm)}, key=lambda f: f.qualname)
    if not gens:
        out.append(inst("REENTRANT-FLAG", INFO, "", "no-value-filter", "no mapping generator filters by value truthiness"))
        return out
    for m in gens:
        # reads of self._yield_when_false_ that can execute after a suspension point / a child evaluation
        reads = [x for x in own_nodes(m.node) if isinstance(x, ast.Attribute) and x.attr == "_yield_when_false_"
                 and isinstance(x.ctx, ast.Load) and isinstance(x.value, ast.Name) and x.value.id == "self"]
        loops = [l for l in own_nodes(m.node) if isinstance(l, ast.For)]
        bad = [r for r in reads if any(any(y is r for y in ast.walk(l)) for l in loops)]
        ok = not bad
        out.append(inst("REENTRANT-FLAG", HOLDS if ok else VIOLATION, m, f"{m.short}[false-row request]",
                        "the filter reads the request for false rows from the call's argument" if ok else
                        f"inside its loop the generator reads `self._yield_when_false_` (line {bad[0].lineno}): when the same "
                        f"expression object is also evaluated in condition position while this evaluation (as an operand) is "
                        f"suspended, the attribute is overwritten and the remaining falsy values are dropped",
                        line=bad[0].lineno if bad else m.lineno))
    # the same holds for every evaluation generator, not only the mappings: a comparison object or a whole sub-condition can be
    # placed twice as well (c = contains(x.tags, y.k); and_(c, or_(c, x.a == y.k)))
    se = db.cls("SymbolicExpression")
    done = {m.qualname for m in gens}
    n_gen = 0
    for c in sorted([se] + se.all_subclasses(), key=lambda k: k.qualname):
        for m in c.methods.values():
            if m.cls is not c or not m.is_generator or "yield_when_false" not in m.params or m.qualname in done:
                continue
            n_gen += 1
            reads = [x for x in own_nodes(m.node) if isinstance(x, ast.Attribute) and x.attr == "_yield_when_false_"
                     and isinstance(x.ctx, ast.Load) and isinstance(x.value, ast.Name) and x.value.id == "self"]
            # a read is harmless only before the first point at which another evaluation of the same object can run: before any
            # child evaluation / yield, i.e. outside loops and not after a yield
            first_susp = min([y.lineno for y in own_nodes(m.node) if isinstance(y, (ast.Yield, ast.YieldFrom))] +
                             [l.lineno for l in own_nodes(m.node) if isinstance(l, ast.For)] or [10 ** 9])
            bad = [r for r in reads if r.lineno >= first_susp]
            ok = not bad
            out.append(inst("REENTRANT-FLAG", HOLDS if ok else VIOLATION, m, f"{m.short}[false-row request]",
                            "after its first suspension point the generator reads the request for false rows from its own argument" if ok else
                            f"the generator reads `self._yield_when_false_` (line {bad[0].lineno}) after a point at which it can be suspended: the same "
                            f"object evaluated in a second position meanwhile (c used twice: and_(c, or_(c, d)) - the else-if asks c for false rows) "
                            f"overwrites the attribute, and this evaluation goes on with the other one's request (false rows taken for true ones)",
                            line=bad[0].lineno if bad else m.lineno))
    if n_gen < 8:
        raise AnalysisError(f"only {n_gen} evaluation generators with a yield_when_false parameter found")
    # … and for the helpers an evaluation generator hands its work to: a generator that has NO such parameter has no request of its
    # own, so the copy on the object is the only thing it could read - and that is the request of whichever evaluation wrote last
    # (a @predicate condition object placed in two disjunctions: or_(c, d) asks c for false rows, or_(e, c) does not)
    n_h = 0
    for c in sorted([se] + se.all_subclasses(), key=lambda k: k.qualname):
        for m in c.methods.values():
            if m.cls is not c or "yield_when_false" in m.params:
                continue
            reads = [x for x in own_nodes(m.node) if isinstance(x, ast.Attribute) and x.attr == "_yield_when_false_"
                     and isinstance(x.ctx, ast.Load) and isinstance(x.value, ast.Name) and x.value.id == "self"]
            if not reads and not m.is_generator:
                continue
            n_h += 1
            if reads:
                out.append(inst("REENTRANT-FLAG", VIOLATION, m, f"{m.short}[false-row request]",
                                f"`{m.short}` has no request of its own (no yield_when_false parameter) and reads `self._yield_when_false_` (line {reads[0].lineno}): "
                                f"that is the request of whichever evaluation of this object wrote last. The same predicate / variable object in two positions "
                                f"(c = greater(p.x, 5); and_(or_(c, d), or_(e, c))) is evaluated for the second position while the first is suspended, and the rows "
                                f"of the first are filtered by the second's request - swapping the operands of the and_ changes the result", line=reads[0].lineno))
    if n_h:
        out.append(inst("REENTRANT-FLAG", HOLDS, se, "helpers[no helper generator reads the stored request]",
                        f"{n_h} generators without a request parameter looked at") ) if not any(i.verdict == VIOLATION and "has no request of its own" in i.reason for i in out) else None
    return out


# ---------------------------------------------------------------------------------- VALUE-NOT-TESTED
def rule_value_not_tested(db: ProgramDB) -> List[Instance]:
    """The payload of a bound value (`<hashed value>.value`: a user object, an attribute value, an element of a user
    collection) is tested for truth only where that truth is the meaning of the expression, i.e. where the test decides
    `self._is_false_` (the filter sites of condition position).  Anywhere else - deciding whether to skip, wrap, flatten or
    accumulate a value - a truth test makes 0, '', [], None and False behave differently from other values."""
    out = []
    se = db.cls("SymbolicExpression")
    n_methods = 0

    def _is_read(x: ast.AST) -> bool:
        return isinstance(x, ast.Attribute) and x.attr == "value" and isinstance(x.ctx, ast.Load) and not (
            isinstance(x.value, ast.Name) and x.value.id == "self") and not (
            isinstance(x.value, ast.Attribute) and isinstance(x.value.value, ast.Name) and x.value.value.id == "self")
    # methods that hand a payload out (An._process_result_): a call of one is a payload
    payload_methods: Set[str] = set()
    for c in [se] + se.all_subclasses():
        for m in c.methods.values():
            if m.cls is c and any(isinstance(r, ast.Return) and r.value is not None and _is_read(r.value) for r in own_nodes(m.node)):
                payload_methods.add(m.name)
    for c in sorted([se] + se.all_subclasses(), key=lambda k: k.qualname):
        for m in c.methods.values():
            if m.cls is not c:
                continue
            payload_reads = [x for x in own_nodes(m.node) if _is_read(x) or
                             (isinstance(x, ast.Call) and call_attr(x) in payload_methods and isinstance(x.func.value, ast.Name) and x.func.value.id == "self")]
            if not payload_reads:
                continue
            tainted: Set[str] = set()

            def is_payload(e: ast.AST) -> bool:
                """the payload itself or what is read out of it: an element, an attribute, the result of calling it"""
                if any(e is r for r in payload_reads) or (isinstance(e, ast.Name) and e.id in tainted):
                    return True
                if isinstance(e, ast.Attribute) and e.attr.startswith("_") and e.attr.endswith("_") and not e.attr.startswith("__"):
                    return False         # an attribute of the engine's own objects (a wrapped Variable: `v.value._domain_`), not of a user value
                if isinstance(e, (ast.Subscript, ast.Attribute)) and not _is_read(e):
                    return is_payload(e.value)
                if isinstance(e, ast.IfExp):
                    return is_payload(e.body) or is_payload(e.orelse)
                if isinstance(e, ast.Call):
                    if is_payload(e.func):
                        return True
                    if dotted(e.func) == "getattr" and e.args and is_payload(e.args[0]):
                        nm = e.args[1] if len(e.args) > 1 else None
                        if isinstance(nm, ast.Constant) and isinstance(nm.value, str) and nm.value.startswith("_") and nm.value.endswith("_") \
                                and not nm.value.startswith("__"):
                            return False
                        return True
                    if isinstance(e.func, ast.Attribute) and e.func.attr in ("get", "__getitem__", "pop") and is_payload(e.func.value):
                        return True
                return False
            changed = True
            while changed:
                changed = False
                for a in own_nodes(m.node):
                    if isinstance(a, ast.Assign) and len(a.targets) == 1 and isinstance(a.targets[0], ast.Name) \
                            and a.targets[0].id not in tainted and is_payload(a.value):
                        tainted.add(a.targets[0].id)
                        changed = True
            n_methods += 1
            uses = []
            parent = db.parent
            cfg_box: List[CFG] = []

            def reaches_use(x: ast.AST) -> bool:
                """a local name is a payload at this use only if an assignment of a payload to it reaches the use without the name
                being assigned again on the way (a row fetched with next(stream, None), tested, and only then unwrapped into the
                same name is not a payload where it is tested)"""
                if not isinstance(x, ast.Name):
                    return True
                if not cfg_box:
                    cfg_box.append(CFG(m))
                cfg = cfg_box[0]
                st = x
                while st is not None and not isinstance(st, ast.stmt):
                    st = parent(st)
                def holds(nd) -> bool:
                    a = nd.ast
                    if a is None or nd.kind in ("entry", "exit"):
                        return False
                    if nd.kind == "for":
                        return any(y is x for y in ast.walk(a.iter))
                    if isinstance(a, (ast.Try, ast.While, ast.With, ast.For, ast.If, ast.FunctionDef, ast.AsyncFunctionDef, ast.ClassDef)):
                        return False
                    return any(y is x for y in ast.walk(a))
                use_nodes = [nd for nd in cfg.nodes if holds(nd)]
                if not use_nodes:
                    return True

                def stores(nd) -> bool:
                    a = nd.ast
                    if a is None:
                        return False
                    if nd.kind == "for":
                        return any(isinstance(y, ast.Name) and y.id == x.id for y in ast.walk(a.target))
                    if isinstance(a, (ast.If, ast.While, ast.For, ast.With, ast.Try)):
                        return False
                    return any(isinstance(y, ast.Name) and y.id == x.id and isinstance(y.ctx, ast.Store) for y in ast.walk(a))
                defs = [nd for nd in cfg.nodes if nd.kind == "stmt" and isinstance(nd.ast, ast.Assign) and len(nd.ast.targets) == 1
                        and isinstance(nd.ast.targets[0], ast.Name) and nd.ast.targets[0].id == x.id and is_payload(nd.ast.value)]
                if not defs:
                    return True          # tainted some other way (loop target, parameter): no refinement
                goal_ids = {u.id for u in use_nodes}
                for d in defs:
                    if cfg.find_path(d.id, lambda nd: nd.id in goal_ids, blocked=lambda nd: stores(nd)) is not None:
                        return True
                return False
            for n in own_nodes(m.node):
                tests = []
                if isinstance(n, (ast.If, ast.While, ast.IfExp, ast.Assert)):
                    tests.append((n, n.test))
                elif isinstance(n, ast.Call) and dotted(n.func) == "bool" and n.args:
                    tests.append((n, n.args[0]))
                elif isinstance(n, ast.BoolOp) and not isinstance(parent(n), (ast.If, ast.While, ast.IfExp, ast.BoolOp, ast.UnaryOp)):
                    for v in n.values[:-1]:
                        tests.append((n, v))
                elif isinstance(n, ast.comprehension):
                    for t in n.ifs:
                        tests.append((n, t))
                for holder, t in tests:
                    for leaf in _boolean_leaves(t):
                        if is_payload(leaf) and reaches_use(leaf):
                            uses.append((holder, leaf))
                        elif isinstance(leaf, ast.Compare) and len(leaf.ops) == 1 and isinstance(leaf.ops[0], (ast.Is, ast.IsNot, ast.Eq, ast.NotEq)):
                            # a payload compared with a constant: the constant is taken for 'nothing there' (None as the end of a stream,
                            # as 'no such entry'), and a value that IS that constant is lost
                            l, r = leaf.left, leaf.comparators[0]
                            for x, y in ((l, r), (r, l)):
                                if is_payload(x) and isinstance(y, ast.Constant) and reaches_use(x):
                                    uses.append((holder, leaf))
                                    break
            for holder, leaf in uses:
                # a filter site: the statement the test belongs to decides self._is_false_
                st = holder
                while st is not None and not isinstance(st, ast.stmt):
                    st = parent(st)
                decides_flag = st is not None and any(
                    isinstance(x, ast.Assign) and any(isinstance(t, ast.Attribute) and t.attr == "_is_false_" for t in x.targets)
                    for x in ast.walk(st))
                key = f"{m.short}[truth of `{unparse(leaf)}` in `{unparse(holder.test if hasattr(holder, 'test') else holder)[:40]}`]"
                if decides_flag:
                    out.append(inst("VALUE-NOT-TESTED", INFO, m, key, "filter site: this test is the truth of the expression in condition position "
                                                                      "(it decides _is_false_)", line=leaf.lineno))
                else:
                    out.append(inst("VALUE-NOT-TESTED", VIOLATION, m, key,
                                    (f"the payload of a bound value is compared with a constant to decide whether there is a value at all: a value that "
                                     f"is that constant (None stored under a key, None selected as a result) is taken for 'nothing there' and the row - or "
                                     f"every row after it - is lost" if isinstance(leaf, ast.Compare) else
                                     f"the payload of a bound value is tested for truth to decide something other than the truth of a "
                                     f"condition: a falsy value (0, '', [], None, False) is skipped / wrapped / accumulated differently "
                                     f"from any other value"), line=leaf.lineno))
            if not uses:
                out.append(inst("VALUE-NOT-TESTED", HOLDS, m, f"{m.short}[payloads]",
                                f"{len(payload_reads)} payload read(s), none tested for truth"))
    if n_methods == 0:
        raise AnalysisError("no method reads the payload of a bound value")
    return out


# ---------------------------------------------------------------------------------- BOUND-AGAIN-TRUTH
def rule_bound_again_truth(db: ProgramDB) -> List[Instance]:
    """An expression object can occur more than once in a condition (`f = v.flag; or_(f, and_(f, …))`).  The second time it
    is evaluated it finds itself bound and hands the binding on - but its parent still reads its truth flag.  Every evaluation
    generator that decides its own truth from a value it computes therefore sets the flag on that shortcut path too (from the
    value it is bound to), instead of leaving whatever the flag held."""
    from ..cfg import CFG
    out = []
    se = db.cls("SymbolicExpression")
    n = 0
    for c in sorted(se.all_subclasses(), key=lambda k: k.qualname):
        m = c.methods.get("_evaluate__")
        if m is None or not m.is_generator:
            continue
        # decides its own truth: assigns self._is_false_ a constant or something computed from locals (not another node's flag)
        own = False
        for a in own_nodes(m.node):
            if isinstance(a, ast.Assign) and any(isinstance(t, ast.Attribute) and t.attr == "_is_false_" and isinstance(t.value, ast.Name)
                                                 and t.value.id == "self" for t in a.targets):
                if not any(isinstance(x, ast.Attribute) and x.attr == "_is_false_" for x in ast.walk(a.value)) and \
                        not any(isinstance(x, ast.Call) for x in ast.walk(a.value)):
                    own = True
        if not own or c.is_subclass_of("BinaryOperator") and not c.is_subclass_of("Comparator") and c.name != "Comparator":
            continue
        cfg = CFG(m)
        tests = [nd for nd in cfg.nodes if nd.kind == "test" and isinstance(nd.stmt, ast.If) and isinstance(nd.stmt.test, ast.Compare)
                 and isinstance(nd.stmt.test.ops[0], ast.In) and unparse(nd.stmt.test.left) == "self._id_"]
        for t in tests:
            n += 1

            def sets_flag(nd):
                a = nd.ast
                return nd.kind == "stmt" and isinstance(a, ast.Assign) and any(isinstance(x, ast.Attribute) and x.attr == "_is_false_"
                                                                                 and isinstance(x.value, ast.Name) and x.value.id == "self" for x in a.targets)
            bad = None
            for e in cfg.succ[t.id]:
                if e.kind == "n" and e.label == "T":
                    first = cfg.nodes[e.dst]
                    if sets_flag(first):
                        continue
                    p = cfg.find_path(first.id, lambda nd: nd.has_yield, kinds=("n",), blocked=sets_flag)
                    if p is not None or first.has_yield:
                        bad = first
            # ... and from the VALUE it is bound to: the payload of the wrapper in the row (the wrapper itself is always truthy)
            if bad is None:
                defs_ = local_defs(m)
                bp_ = unparse(t.stmt.test.comparators[0])
                for e in cfg.succ[t.id]:
                    if e.kind == "n" and e.label == "T":
                        reach = cfg.reachable([e.dst], kinds=("n",))
                        for nid in reach:
                            nd2 = cfg.nodes[nid]
                            if sets_flag(nd2) and nd2.lineno <= (t.stmt.body[-1].end_lineno or 10 ** 9):
                                srcs = [nd2.ast.value] + [d for x in ast.walk(nd2.ast.value) if isinstance(x, ast.Name) for d in defs_.get(x.id, []) if isinstance(d, ast.AST)]
                                reads_payload = any(isinstance(x, ast.Attribute) and x.attr == "value" and isinstance(x.value, ast.Subscript)
                                                    and unparse(x.value.value) == bp_ for s_ in srcs for x in ast.walk(s_))
                                reads_wrapper_only = any(isinstance(x, ast.Subscript) and unparse(x.value) == bp_ for s_ in srcs for x in ast.walk(s_)) and not reads_payload
                                if reads_wrapper_only:
                                    out.append(inst("BOUND-AGAIN-TRUTH", VIOLATION, m, f"{m.short}[bound already: truth of the bound VALUE]",
                                                    f"`{unparse(nd2.ast)}` decides the truth from the wrapper the row holds, which is always truthy, not from the value in it: "
                                                    f"the second occurrence of one comparison object (or_(and_(c, p), and_(c, q))) always counts as true", line=nd2.lineno))
                                elif reads_payload:
                                    out.append(inst("BOUND-AGAIN-TRUTH", HOLDS, m, f"{m.short}[bound already: truth of the bound VALUE]",
                                                    "the truth is decided from the payload of the bound value", line=nd2.lineno))
            out.append(inst("BOUND-AGAIN-TRUTH", VIOLATION if bad is not None else HOLDS, m, f"{m.short}[bound already]",
                            "the binding is handed on without the truth flag being set: the parent reads what the flag held when the generator was "
                            "entered, so a condition object used twice (f = v.flag; or_(f, and_(f, v.a > 1))) lets through objects for which it is false"
                            if bad is not None else "the truth flag is set from the bound value before the binding is handed on", line=t.lineno))
    if n == 0:
        raise AnalysisError("no evaluation generator with a 'bound already' shortcut that decides its own truth found")
    return out


# ---------------------------------------------------------------------------------- VALUE-FLAG-NOT-READ
def rule_value_flag_not_read(db: ProgramDB) -> List[Instance]:
    """An expression evaluated AS A VALUE (`_evaluate_as_value_`) still leaves the truthiness of what it produced in its own
    truth flag - that is how the same expression works in condition position.  Whoever asked for the value must not read that
    flag: it would treat a falsy value (0, '', None, an empty collection) as 'this row does not count'."""
    out = []
    n = 0
    for fn in sorted(db.all_functions(), key=lambda f: f.qualname):
        as_value = {unparse(c.func.value) for c in own_calls(fn) if call_attr(c) == "_evaluate_as_value_" and isinstance(c.func, ast.Attribute)}
        as_cond = {unparse(c.func.value) for c in own_calls(fn) if call_attr(c) in ("_evaluate__", "_evaluate_") and isinstance(c.func, ast.Attribute)}
        for r in sorted(as_value - as_cond - {"self"}):
            n += 1
            reads = [x for x in own_nodes(fn.node) if isinstance(x, ast.Attribute) and x.attr == "_is_false_" and isinstance(x.ctx, ast.Load) and unparse(x.value) == r]
            out.append(inst("VALUE-FLAG-NOT-READ", VIOLATION if reads else HOLDS, fn, f"{fn.short}[{r} evaluated as a value]",
                            f"`{unparse(reads[0])}` reads the truth flag of an operand that was evaluated as a value: its falsy values are skipped "
                            f"(for_all over an attribute / index / flattened element with a falsy value becomes weaker, or yields nothing)" if reads else
                            "the truth flag of the operand is not consulted", line=reads[0].lineno if reads else fn.lineno))
    if n < 5:
        raise AnalysisError(f"only {n} operand(s) evaluated as values found")
    return out


# ---------------------------------------------------------------------------------- BOUND-AGAIN-ONCE
def rule_bound_again_once(db: ProgramDB) -> List[Instance]:
    """An expression object that finds itself bound already (`self._id_ in sources`: the same object occurs a second time in the
    condition) answers for that one binding: it hands the incoming row on - or not, by its truth - and is done.  Path rule: in the
    region guarded by that test, after a row was yielded every path reaches the end of the generator without yielding again and
    without evaluating an operand or consulting a cache.  Falling through into the ordinary evaluation yields the row a second
    time (each qualifying object twice: and_(or_(c, A), or_(c, B)) with one comparison object c)."""
    out = []
    se = db.cls("SymbolicExpression")
    n = 0
    for c in sorted([se] + se.all_subclasses(), key=lambda k: k.qualname):
        for m in c.methods.values():
            if m.cls is not c or not m.is_generator or not is_eval_name(m.name):
                continue
            cfg = None
            for t_if in [x for x in own_nodes(m.node) if isinstance(x, ast.If) and isinstance(x.test, ast.Compare) and len(x.test.ops) == 1
                         and isinstance(x.test.ops[0], ast.In) and unparse(x.test.left) == "self._id_"]:
                # does any row ever bind this node's own identifier?  (a class whose rows never do cannot find itself bound: the branch is dead)
                binds = False
                for k in [c] + c.all_subclasses() + list(c.mro):
                    for mm in k.methods.values():
                        if not (mm.is_generator or is_eval_name(mm.name)):
                            continue             # rows are built by evaluation code (the constructor registers the node under its id: no row)
                        for z in own_nodes(mm.node):
                            if isinstance(z, ast.Dict) and any(kk is not None and unparse(kk) == "self._id_" for kk in z.keys):
                                binds = True
                            if isinstance(z, ast.Subscript) and isinstance(z.ctx, ast.Store) and unparse(z.slice) == "self._id_":
                                binds = True
                if not binds:
                    out.append(inst("BOUND-AGAIN-ONCE", INFO, m, f"{m.short}[bound already: one answer]",
                                    "no row of this class (or of a class that shares the method) binds the node's own identifier: the branch cannot be taken", line=t_if.lineno))
                    continue
                cfg = cfg or CFG(m)
                region = {id(y) for st_ in t_if.body for y in ast.walk(st_)}
                ys = [nd for nd in cfg.nodes if nd.has_yield and nd.ast is not None and id(nd.ast) in region or (nd.has_yield and nd.stmt is not None and id(nd.stmt) in region)]
                if not ys:
                    continue
                n += 1
                bad = None
                for y in ys:
                    def more(nd, y=y):
                        if nd.id == y.id or nd.ast is None:
                            return False
                        if nd.has_yield:
                            return True
                        return any(isinstance(z, ast.Call) and (is_eval_name(call_attr(z) or "") or call_attr(z) in ("check", "retrieve", "yield_final_output_from_cache"))
                                   for z in ast.walk(nd.ast if nd.kind != "for" else nd.ast.iter))
                    p = cfg.find_path(y.id, more, kinds=("n",))
                    if p is not None:
                        bad = (y, cfg.nodes[p[-1].dst], p)
                        break
                out.append(inst("BOUND-AGAIN-ONCE", VIOLATION if bad else HOLDS, m, f"{m.short}[bound already: one answer]",
                                "after the row for the existing binding the generator ends" if not bad else
                                f"after `{bad[0].src()[:40]}` in the 'bound already' branch the generator goes on to `{bad[1].src()[:60]}` (line {bad[1].lineno}): the incoming row is "
                                f"answered a second time from the ordinary evaluation (or the cache) - every qualifying object comes back twice when one condition object is used "
                                f"in two places of the condition", line=bad[0].lineno if bad else t_if.lineno))
    if n < 3:
        raise AnalysisError(f"only {n} 'bound already' branches found")
    return out

