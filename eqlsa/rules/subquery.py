"""C15: a sub-query used inside a query means its conditions inlined - the structural clauses of the quantifier nodes."""
from __future__ import annotations

import ast
import itertools
from typing import Dict, List, Optional, Set, Tuple

from ..db import ProgramDB, FuncInfo, ClassInfo, AnalysisError, unparse, own_nodes, dotted
from ..cfg import CFG, Node
from ..facts import own_calls, call_attr, local_defs, bind_args, fn_params, resolve_call_target
from .entries import is_eval_method_name
from ..framework import inst, HOLDS, VIOLATION, UNDECIDED, INFO, Instance
from ..abseval import AbsEval, State, const, TOP, TRUE, FALSE, NONE, fmt


# ---------------------------------------------------------------------------------- QUANT-TRUTH
def quantifier_truth_profile(db: ProgramDB, env: dict) -> Set[Tuple[str, object]]:
    """(yielded expression, self._is_false_ at the yield) pairs of An._evaluate__ when the quantifier is not bound yet, its
    descriptor reports _is_false_ = env['C'] and false rows are requested iff env['ywf']."""
    m = db.method("An", "_evaluate__", inherited=False)
    cfg = CFG(m)

    def attr_hook(e, st, ev):
        if isinstance(e, ast.Attribute) and e.attr == "_is_false_" and isinstance(e.value, ast.Attribute) \
                and isinstance(e.value.value, ast.Name) and e.value.value.id == "self" and e.value.attr == "_child_":
            return const(env["C"])
        if isinstance(e, ast.Attribute) and e.attr == "_var_" and isinstance(e.value, ast.Name) and e.value.id == "self":
            return ("obj", "truthy")
        return None
    ev = AbsEval(db, m, cfg, attr_hook=attr_hook)
    bound_tests = [n for n in cfg.nodes if n.kind == "test" and isinstance(n.stmt, ast.If) and isinstance(n.stmt.test, ast.Compare)
                   and isinstance(n.stmt.test.ops[0], ast.In) and unparse(n.stmt.test.left) == "self._id_"]
    if not bound_tests:
        raise AnalysisError("An._evaluate__: the 'already bound' test was not found")
    init = State({"yield_when_false": const(env["ywf"]), "self._is_false_": TOP, "self._yield_when_false_": TOP})
    IN = ev.run(init, kinds=("n",))
    out = set()
    # only the yields of the 'not bound yet' side are looked at
    then_nodes = {id(x) for s in bound_tests[0].stmt.body for x in ast.walk(s)}
    for n in cfg.nodes:
        if n.has_yield and not n.region and IN[n.id] and n.ast is not None and id(n.ast) not in then_nodes and id(n.stmt) not in then_nodes:
            y = [x for x in ast.walk(n.ast) if isinstance(x, (ast.Yield, ast.YieldFrom))][0]
            for st in IN[n.id]:
                out.add((unparse(y.value)[:40] if y.value is not None else "", st.get("self._is_false_")))
    return out


def rule_quant_truth(db: ProgramDB) -> List[Instance]:
    """A sub-query in condition position is true for a binding exactly when its conditions are: the quantifier hands on a row
    iff its descriptor's row is true or false rows were requested, and reports the descriptor's truth as its own."""
    out = []
    m = db.method("An", "_evaluate__", inherited=False)
    for c, y in itertools.product([False, True], repeat=2):
        if c and not y:
            # the descriptor is asked with the same request: it reports false rows only when they were requested
            want: Set[object] = set()
        else:
            want = {const(c)}
        got = {f for _, f in quantifier_truth_profile(db, dict(C=c, ywf=y))}
        ok = got == want
        out.append(inst("QUANT-TRUTH", HOLDS if ok else VIOLATION, m, f"An._evaluate__[descriptor_false={c},yield_when_false={y}]",
                        f"rows are handed on with _is_false_ in {sorted(fmt(x) for x in got)}" +
                        ("" if ok else f"; a sub-query is as true as its conditions: required {sorted(fmt(x) for x in want)}")))
    # the descriptor is asked for false rows exactly when the quantifier was
    from ..evalsites import site_model
    sites = [s for s in site_model(db).sites if s.fn.qualname == m.qualname and "self._child_" in s.origins]
    if not sites:
        raise AnalysisError("An._evaluate__: evaluation of the descriptor not found")
    for s in sites:
        ok = s.ywf[0] == "expr" and ("yield_when_false" in unparse(s.ywf[1]))
        out.append(inst("QUANT-TRUTH", HOLDS if ok else VIOLATION, m, "An._evaluate__[request for false rows passed on]",
                        "the descriptor is asked for false rows iff the quantifier is" if ok else
                        f"the descriptor is evaluated with yield_when_false={unparse(s.ywf[1]) if s.ywf[1] is not None else s.ywf[0]}: a sub-query "
                        f"under or_ / not_ is asked for its false rows and must pass the request on, otherwise the enclosing else-if never "
                        f"sees the bindings on which the sub-query fails", line=s.line))
    return out


# ---------------------------------------------------------------------------------- QUANT-REEXPORT
def rule_quant_reexport(db: ProgramDB) -> List[Instance]:
    """Used as an operand, a quantifier stands for its selected variable: every row it hands on binds the quantifier's own id
    to the value the row binds the selected variable to (and to nothing else), so that the enclosing comparison / constructor
    sees exactly the sub-query's solutions."""
    out = []
    n = 0
    for cname, mname in (("An", "_evaluate__"), ("The", "_evaluate_")):
        m = db.method(cname, mname, inherited=False)
        writes = []
        for x in own_nodes(m.node):
            # X[self._id_] = V
            if isinstance(x, ast.Assign) and len(x.targets) == 1 and isinstance(x.targets[0], ast.Subscript) \
                    and unparse(x.targets[0].slice) == "self._id_" and isinstance(x.targets[0].value, ast.Name):
                writes.append((x, x.targets[0].value.id, x.value))
            # X.update({self._id_: V})
            if isinstance(x, ast.Call) and call_attr(x) == "update" and isinstance(x.func.value, ast.Name) and x.args and isinstance(x.args[0], ast.Dict):
                for k, v in zip(x.args[0].keys, x.args[0].values):
                    if k is not None and unparse(k) == "self._id_":
                        writes.append((x, x.func.value.id, v))
        if not writes:
            out.append(inst("QUANT-REEXPORT", VIOLATION, m, f"{m.short}[own id bound]",
                            "no row handed on binds the quantifier's own id: as an operand of a comparison the sub-query has no value"))
            n += 1
            continue
        for node, row, val in writes:
            n += 1
            ok = isinstance(val, ast.Subscript) and isinstance(val.value, ast.Name) and val.value.id == row \
                and unparse(val.slice) == "self._var_._id_"
            out.append(inst("QUANT-REEXPORT", HOLDS if ok else VIOLATION, m, f"{m.short}[{unparse(node)[:50]}]",
                            f"the row binds the quantifier to the row's own value of the selected variable" if ok else
                            f"`{unparse(node)[:70]}` does not bind the quantifier's id to `{row}[self._var_._id_]`: the operand the enclosing "
                            f"comparison sees is not the sub-query's solution for this row", line=node.lineno))
            # guarded only by the existence of a single selected variable
            from ..boolexpr import guards_of
            st = node
            while st is not None and not isinstance(st, ast.stmt):
                st = db.parent(st)
            g = guards_of(st, m.node.body) or []
            var_guards = [t for t, pol in g if "self._var_" in unparse(t)]
            other = [t for t, pol in g if "self._var_" not in unparse(t) and "_is_false_" not in unparse(t) and "_id_ in" not in unparse(t)
                     and "result is None" not in unparse(t) and "yield_when_false" not in unparse(t).lower()]
            ok2 = not other
            out.append(inst("QUANT-REEXPORT", HOLDS if ok2 else VIOLATION, m, f"{m.short}[re-export for every row handed on]",
                            f"the re-export depends only on there being a single selected variable ({len(var_guards)} guard(s))" if ok2 else
                            f"the re-export is conditional on `{unparse(other[0])[:50]}`: some rows are handed on without the quantifier bound",
                            line=node.lineno))
    if n == 0:
        raise AnalysisError("no quantifier evaluation method found")
    return out


# ---------------------------------------------------------------------------------- QUANT-CONTRIBUTES
def rule_quant_contributes(db: ProgramDB) -> List[Instance]:
    """A quantifier passed where a variable is selected contributes its conditions: it is replaced by its selected variable in
    the selection AND joins the conditions that are conjoined into the descriptor's expression; operators on a quantifier
    delegate to the selected variable of its descriptor."""
    out = []
    fn = db.fn("entity:_extract_variables_and_expression")
    loops = [l for l in own_nodes(fn.node) if isinstance(l, ast.For)]
    from ..boolexpr import regions_guarded_by
    regions = [(i, body) for l in loops for i, body in regions_guarded_by(l, lambda t: "ResultQuantifier" in unparse(t))]
    if not regions:
        raise AnalysisError("_extract_variables_and_expression: no arm for a selected quantifier")
    arm = ast.Module(body=regions[0][1], type_ignores=[])          # the statements that run for a selected quantifier
    arm.lineno = regions[0][0].lineno
    appended = [c for c in ast.walk(arm) if isinstance(c, ast.Call) and call_attr(c) in ("append", "add", "insert") and isinstance(c.func.value, ast.Name)]
    lists = {c.func.value.id for c in appended}
    # the list that receives the quantifier reaches the and_(...) / single-expression result
    rets = [r for r in own_nodes(fn.node) if isinstance(r, ast.Return) and r.value is not None]
    defs = local_defs(fn)
    reach: Set[str] = set()
    frontier = {x.id for r in rets for x in ast.walk(r.value) if isinstance(x, ast.Name)}
    while frontier:
        nm = frontier.pop()
        if nm in reach:
            continue
        reach.add(nm)
        for d in defs.get(nm, []):
            if isinstance(d, ast.AST):
                frontier |= {x.id for x in ast.walk(d) if isinstance(x, ast.Name)}
        for x in own_nodes(fn.node):
            if isinstance(x, ast.AugAssign) and isinstance(x.target, ast.Name) and x.target.id == nm:
                frontier |= {y.id for y in ast.walk(x.value) if isinstance(y, ast.Name)}
    ok = bool(lists & reach)
    conj = any(isinstance(c, ast.Call) and (dotted(c.func) or "").split(".")[-1] in ("and_", "AND", "chained_logic") for c in own_nodes(fn.node))
    out.append(inst("QUANT-CONTRIBUTES", HOLDS if ok and conj else VIOLATION, fn, "_extract_variables_and_expression[conditions of a selected quantifier]",
                    "a selected quantifier joins the conjunction of conditions of the enclosing descriptor" if ok and conj else
                    "a quantifier passed as a selected variable is not conjoined with the conditions of the enclosing descriptor: "
                    "entity(an(entity(v, c)), d) would select v under d only", line=arm.lineno))
    repl = [a for a in ast.walk(arm) if isinstance(a, ast.Assign) and isinstance(a.targets[0], ast.Subscript)
            and "_var_" in unparse(a.value) or (isinstance(a, ast.Assign) and isinstance(a.targets[0], ast.Subscript)
                                                and isinstance(a.value, ast.Name) and any("_var_" in unparse(d) for d in defs.get(a.value.id, []) if isinstance(d, ast.AST)))]
    out.append(inst("QUANT-CONTRIBUTES", HOLDS if repl else VIOLATION, fn, "_extract_variables_and_expression[selection replaced by the selected variable]",
                    "the selection lists the quantifier's selected variable" if repl else
                    "the selection keeps the quantifier instead of its selected variable", line=arm.lineno))
    # delegation
    rq = db.cls("ResultQuantifier")
    pi = rq.methods.get("__post_init__")
    ok3 = pi is not None and any(isinstance(a, ast.Assign) and unparse(a.targets[0]) == "self._var_" and unparse(a.value) == "self._child_._var_"
                                 for a in own_nodes(pi.node))
    out.append(inst("QUANT-CONTRIBUTES", HOLDS if ok3 else VIOLATION, rq, "ResultQuantifier.__post_init__[delegates to the selected variable]",
                    "`self._var_ = self._child_._var_`: attribute access and comparisons on a quantifier build expressions on its selected variable" if ok3 else
                    "the quantifier does not delegate to the selected variable of its descriptor"))
    return out


# ---------------------------------------------------------------------------------- HOOK-SELF
def rule_hook_self(db: ProgramDB) -> List[Instance]:
    """Attribute access, indexing and calls on an expression build a node ON THAT EXPRESSION (`Attribute(self, …)`): for a
    quantifier the node has to stay above the sub-query, otherwise `an(entity(z, c)).attr` becomes `z.attr` and the operand is
    no longer restricted to the sub-query's solutions."""
    out = []
    cbv = db.cls("CanBehaveLikeAVariable")
    n = 0
    for h in ("__getattr__", "__getitem__", "__call__"):
        m = cbv.lookup(h)
        if m is None:
            out.append(inst("HOOK-SELF", UNDECIDED, cbv, f"CanBehaveLikeAVariable.{h}", "hook not defined"))
            continue
        rets = [r for r in own_nodes(m.node) if isinstance(r, ast.Return) and isinstance(r.value, ast.Call)]
        builds = [r for r in rets if isinstance(resolve(db, m, r.value), ClassInfo)]
        if not builds:
            out.append(inst("HOOK-SELF", UNDECIDED, m, f"CanBehaveLikeAVariable.{h}", "no node construction returned"))
            continue
        for r in builds:
            n += 1
            c = r.value
            t = resolve(db, m, c)
            first = c.args[0] if c.args else next((k.value for k in c.keywords if k.arg == "_child_"), None)
            ok = isinstance(first, ast.Name) and first.id == "self"
            out.append(inst("HOOK-SELF", HOLDS if ok else VIOLATION, m, f"CanBehaveLikeAVariable.{h}[{unparse(c)[:40]}]",
                            f"{t.name} is built on the expression itself" if ok else
                            f"`{unparse(c)}` builds {t.name} on `{unparse(first) if first is not None else '?'}`, not on the expression the hook "
                            f"was invoked on: for a quantifier the sub-query drops out of the expression tree", line=c.lineno))
    if n == 0:
        raise AnalysisError("no hook builds a node")
    return out


def resolve(db, fn, call):
    from ..facts import resolve_call_target
    return resolve_call_target(db, fn, call)


# ---------------------------------------------------------------------------------- VARS-COMPLETE
def rule_vars_complete(db: ProgramDB) -> List[Instance]:
    """`_all_variable_instances_` of a node lists the variables of every sub-expression the node evaluates (it feeds the keys
    of the result caches of the operators above and the duplicate-suppression keys): a descriptor that reports its selected
    variables but not the variables of its conditions lets an enclosing operator cache a sub-query's rows per value of the
    selected variable only."""
    from ..abseval import AbsEval, State
    from ..cfg import CFG
    from ..evalsites import site_model
    out = []
    model = site_model(db)
    se = db.cls("SymbolicExpression")
    evaluated: Dict[str, Set[str]] = {}
    for s in model.sites:
        if s.fn.cls is None or not s.fn.cls.is_subclass_of(se):
            continue
        for o in s.origins:
            if o.startswith("self."):
                fname = o[5:].split("[")[0].split(".")[0]
                if any(f.name == fname for k in s.fn.cls.mro for f in k.own_fields):
                    evaluated.setdefault(s.fn.cls.name, set()).add(fname)
    SKIP = {("Variable", "_domain_source_"): "the domain is a source of values, its variables do not identify rows of this query",
            ("Variable", "_kwargs_expression_"): "built from the variable's own field constraints (same variables as _child_vars_)"}
    n = 0
    done = set()
    for cname, fields in sorted(evaluated.items()):
        cls = db.cls(cname)
        # the implementation that serves the evaluating class and each of its concrete subclasses
        for c in sorted([cls] + cls.all_subclasses(), key=lambda k: k.qualname):
            m = c.lookup("_all_variable_instances_")
            if m is None or any("abstractmethod" in d for d in m.decorators):
                continue
            cfg = CFG(m)

            def attr_hook(e, st, ev):
                if isinstance(e, ast.Attribute) and isinstance(e.value, ast.Name) and e.value.id == "self" and not e.attr.startswith("__"):
                    return ("obj", "truthy")
                return None
            ev = AbsEval(db, m, cfg, attr_hook=attr_hook)
            IN = ev.run(State({}), kinds=("n",))
            reached_src = " ".join(unparse(cfg.nodes[i].ast) for i, sts in IN.items() if sts and cfg.nodes[i].ast is not None and cfg.nodes[i].kind in ("stmt", "return", "for"))
            for fname in sorted(fields):
                if (cname, fname) in SKIP or (m.qualname, fname) in done:
                    continue
                done.add((m.qualname, fname))
                n += 1
                aliases = {fname}
                if fname == "left":
                    aliases |= {"variable"}
                if fname == "right":
                    aliases |= {"condition"}
                ok = any(f"self.{a}" in reached_src for a in aliases)
                out.append(inst("VARS-COMPLETE", HOLDS if ok else VIOLATION, m, f"{m.short}[self.{fname}]",
                                f"the variables of self.{fname} are reported whenever it is present" if ok else
                                f"{c.name} evaluates self.{fname} but {m.short} does not report its variables (on the path where every sub-expression is "
                                f"present): operators above key their result caches and duplicate suppression without them, so rows of the "
                                f"sub-expression that differ only in those variables are served from one cache entry / suppressed as duplicates", line=m.lineno))
    if n == 0:
        raise AnalysisError("no _all_variable_instances_ implementation found for a class that evaluates sub-expressions")
    # … of EVERY such sub-expression, whatever its kind: where the implementation walks a collection of sub-expressions (the arguments
    # of a constructor / predicate), what an element contributes is not filtered by the element's type - an argument that is an
    # attribute, an index, a call or a nested query is built on variables too
    from ..boolexpr import guards_of
    for c in sorted([se] + se.all_subclasses(), key=lambda k: k.qualname):
        m = c.methods.get("_all_variable_instances_")
        if m is None or m.cls is not c:
            continue
        for loop in [l for l in own_nodes(m.node) if isinstance(l, ast.For) and isinstance(l.target, ast.Name)]:
            t = loop.target.id
            adds = [x for st_ in loop.body for x in ast.walk(st_) if isinstance(x, ast.Attribute) and x.attr == "_all_variable_instances_"
                    and isinstance(x.value, ast.Name) and x.value.id == t]
            for a in adds:
                st_ = a
                while not isinstance(st_, ast.stmt):
                    st_ = db.parent(st_)
                gs = [g for g, pol in (guards_of(st_, loop.body) or []) if any(isinstance(y, ast.Call) and dotted(y.func) == "isinstance" for y in ast.walk(g))]
                out.append(inst("VARS-COMPLETE", VIOLATION if gs else HOLDS, m, f"{m.short}[every element of {unparse(loop.iter)[:30]}]",
                                "every element contributes its variables" if not gs else
                                f"the variables of an element of `{unparse(loop.iter)}` are reported only under `{unparse(gs[0])}`: an argument that is an attribute / index / call / "
                                f"nested query contributes nothing, so a variable the head mentions only through `p.name` is missing from what the rule requires of its "
                                f"conditions - two satisfying assignments that differ only in it are taken for duplicates by a disjunction and one instance is not built",
                                line=a.lineno))
    # a node counts ITSELF among the variables only if it takes several values under one binding of the variables below it (a Variable, a
    # flattened expression): a single-valued aggregate whose value is a fresh object per evaluation (a concatenation) would be a key
    # that never compares equal across evaluations
    var = db.cls("Variable")
    dm = db.cls("DomainMapping")
    for c in sorted([se] + se.all_subclasses(), key=lambda k: k.qualname):
        m = c.methods.get("_all_variable_instances_")
        if m is None or m.cls is not c:
            continue
        includes_self = any(isinstance(x, ast.Name) and x.id == "self" and not isinstance(db.parent(x), ast.Attribute)
                            for r in own_nodes(m.node) if isinstance(r, (ast.Return, ast.Assign)) for x in ast.walk(r.value if r.value is not None else r))
        if not includes_self:
            continue
        multi = c is var or c.is_subclass_of(var)
        if not multi and c.is_subclass_of(dm):
            am = c.lookup("_apply_mapping_")
            multi = am is not None and (any(isinstance(l, (ast.For, ast.While)) and any(isinstance(y, (ast.Yield, ast.YieldFrom)) for y in ast.walk(l)) for l in own_nodes(am.node))
                                        or any(isinstance(y, ast.YieldFrom) for y in own_nodes(am.node)))
        out.append(inst("VARS-COMPLETE", HOLDS if multi else VIOLATION, m, f"{m.short}[counts itself among the variables]",
                        "takes several values under one binding of the variables below it" if multi else
                        f"{c.name} yields ONE value per evaluation and lists itself among the variables: the rows a for_all keeps per universal value then carry that value - a "
                        f"fresh object each time it is evaluated - so the rows of two universal values never agree and the intersection is empty "
                        f"(for_all(it, in_(it, concatenate(bx.items))) yields nothing)", line=m.lineno))
    return out


# ---------------------------------------------------------------------------------- QUANT-NOT-STRIPPED
def rule_quant_not_stripped(db: ProgramDB) -> List[Instance]:
    """Wherever a function of the package recognises a quantified sub-query (isinstance(x, ResultQuantifier / An / The)) and goes on
    with its selected variable (`x._var_`, the descriptor's variable), the quantifier itself goes on as well (it is appended to
    the conditions, passed to a constructor, returned): with only the variable left, the conditions of the sub-query are
    gone and the variable ranges over its whole domain."""
    out = []
    rq = db.cls("ResultQuantifier")
    qnames = {rq.name} | {c.name for c in rq.all_subclasses()}
    n_arms = 0
    for fn in sorted(db.all_functions(), key=lambda f: f.qualname):
        if fn.cls is not None and (fn.cls is rq or fn.cls.is_subclass_of(rq)):
            continue        # the quantifier's own methods speak about `self`
        from ..boolexpr import regions_guarded_by

        def is_quant_test(t):
            return isinstance(t, ast.Call) and dotted(t.func) == "isinstance" and len(t.args) == 2 and isinstance(t.args[0], ast.Name) and \
                bool({unparse(e) for e in (t.args[1].elts if isinstance(t.args[1], ast.Tuple) else [t.args[1]])} & qnames)
        for if_st, body in regions_guarded_by(fn.node, is_quant_test):
            t = if_st.test
            while isinstance(t, ast.UnaryOp) and isinstance(t.op, ast.Not):
                t = t.operand
            x = t.args[0].id
            arm = ast.Module(body=body, type_ignores=[])
            strips = [a for s in arm.body for a in ast.walk(s) if isinstance(a, ast.Assign) and any(isinstance(tg, ast.Name) and tg.id == x for tg in a.targets)
                      and any(isinstance(v, ast.Attribute) and isinstance(v.value, ast.Name) and v.value.id == x and v.attr in ("_var_", "selected_variable", "_child_")
                              for v in ast.walk(a.value))]
            if not strips:
                continue
            n_arms += 1
            strip_line = strips[0].lineno
            aliases = {x}
            for s in arm.body:
                for a in ast.walk(s):
                    if isinstance(a, ast.Assign) and isinstance(a.value, ast.Name) and a.value.id == x and a.lineno < strip_line:
                        aliases |= {tg.id for tg in a.targets if isinstance(tg, ast.Name)}
            flows = False
            from ..boolexpr import guards_of as _guards_of
            strip_guards = [unparse(g) + str(pol) for g, pol in (_guards_of(strips[0], arm.body) or [])]
            conditional = None
            for s in arm.body:
                for c in ast.walk(s):
                    hit = False
                    if isinstance(c, ast.Call) and c is not t:
                        for a in list(c.args) + [k.value for k in c.keywords]:
                            if isinstance(a, ast.Name) and ((a.id == x and c.lineno < strip_line) or (a.id in aliases - {x})):
                                hit = True
                    if isinstance(c, (ast.Return, ast.Yield)) and c.value is not None and any(
                            isinstance(a, ast.Name) and a.id in aliases - {x} for a in ast.walk(c.value)):
                        hit = True
                    if hit:
                        # handed on whenever it was replaced: under no condition the replacement is not under
                        st_ = c
                        while not isinstance(st_, ast.stmt):
                            st_ = db.parent(st_)
                        extra = [unparse(g) + str(pol) for g, pol in (_guards_of(st_, arm.body) or []) if unparse(g) + str(pol) not in strip_guards]
                        if extra:
                            conditional = (st_, extra)
                        else:
                            flows = True
            if not flows and conditional is not None:
                n_arms_extra = True
                out.append(inst("QUANT-NOT-STRIPPED", VIOLATION, fn, f"{fn.short}[{x}: quantifier replaced by its variable]",
                                f"`{unparse(strips[0])}` always goes on with the selected variable, but the sub-query itself is handed on only under `{conditional[1][0][:-4] if conditional[1][0].endswith('True') else conditional[1][0]}` "
                                f"(`{unparse(conditional[0])[:60]}`): when that does not hold - a sub-query that gets its condition later through `with sub:`, a selected "
                                f"sub-query some other condition mentions - nothing restricts the variable to the sub-query's solutions", line=conditional[0].lineno))
                continue
            out.append(inst("QUANT-NOT-STRIPPED", HOLDS if flows else VIOLATION, fn, f"{fn.short}[{x}: quantifier replaced by its variable]",
                            "the quantifier is handed on next to its selected variable" if flows else
                            f"`{unparse(strips[0])}` goes on with the selected variable of a quantified sub-query and drops the sub-query: its conditions no longer "
                            f"restrict anything - flatten(an(entity(b.items, b.size > 1))) unnests the items of every b", line=strip_line))
    # the expression form of the same thing: `x._var_ if isinstance(x, ResultQuantifier) else x` (in a comprehension over arguments)
    for fn in sorted(db.all_functions(), key=lambda f: f.qualname):
        if fn.cls is not None and (fn.cls is rq or fn.cls.is_subclass_of(rq)):
            continue
        for e in own_nodes(fn.node):
            if not isinstance(e, ast.IfExp):
                continue
            t, pos, neg = e.test, e.body, e.orelse
            while isinstance(t, ast.UnaryOp) and isinstance(t.op, ast.Not):
                t, pos, neg = t.operand, neg, pos
            if not (isinstance(t, ast.Call) and dotted(t.func) == "isinstance" and len(t.args) == 2 and isinstance(t.args[0], ast.Name)
                    and {unparse(k) for k in (t.args[1].elts if isinstance(t.args[1], ast.Tuple) else [t.args[1]])} & qnames):
                continue
            x = t.args[0].id
            strip = [v for v in ast.walk(pos) if isinstance(v, ast.Attribute) and isinstance(v.value, ast.Name) and v.value.id == x
                     and v.attr in ("_var_", "selected_variable", "_child_")]
            if not strip:
                continue
            n_arms += 1
            kept = any(isinstance(v, ast.Name) and v.id == x and not any(v is s_.value for s_ in strip) for v in ast.walk(pos))
            out.append(inst("QUANT-NOT-STRIPPED", HOLDS if kept else VIOLATION, fn, f"{fn.short}[{x}: quantifier replaced by its variable]",
                            "the quantifier is handed on next to its selected variable" if kept else
                            f"`{unparse(e)[:90]}` goes on with the selected variable of a quantified sub-query and drops the sub-query: its conditions no longer "
                            f"restrict anything - Order(customer=an(entity(c, c.vip))) is concluded for every customer", line=e.lineno))
    if n_arms == 0:
        raise AnalysisError("no place that replaces a quantifier by its selected variable found (the selection of a descriptor was confirmed by reading)")
    return out


# ---------------------------------------------------------------------------------- REQUEST-DELEGATED
def rule_request_delegated(db: ProgramDB) -> List[Instance]:
    """An evaluation method that hands its work to another evaluation method of the SAME node (the descriptor's shared
    `_evaluate_`, the base class's `_evaluate__` through super(), a recursion on self) hands the request for false rows on as it got it:
    entity(...) and set_of(...) are two descriptors with one implementation, and a sub-query on the left of `|` has to yield its
    failed rows whichever of the two it is built from."""
    out = []
    se = db.cls("SymbolicExpression")
    n = 0
    for c in sorted([se] + se.all_subclasses(), key=lambda k: k.qualname):
        for m in c.methods.values():
            if m.cls is not c or not is_eval_method_name(m.name) or "yield_when_false" not in m.params:
                continue
            for call in own_calls(m):
                f = call.func
                if not (isinstance(f, ast.Attribute) and is_eval_method_name(f.attr)):
                    continue
                to_self = (isinstance(f.value, ast.Name) and f.value.id == "self") or (isinstance(f.value, ast.Call) and dotted(f.value.func) == "super")
                if not to_self:
                    continue
                callee = c.lookup(f.attr)
                if callee is None or "yield_when_false" not in callee.params:
                    continue
                n += 1
                amap = bind_args(fn_params(callee), call)
                given = amap.get("yield_when_false")
                ok = given is not None and unparse(given) in ("yield_when_false", "self._yield_when_false_")
                out.append(inst("REQUEST-DELEGATED", HOLDS if ok else VIOLATION, m, f"{m.short}[{unparse(call)[:50]}]",
                                "the request for false rows is handed on unchanged" if ok else
                                f"`{unparse(call)[:70]}` hands the work to another evaluation method of the same node without the request for false rows "
                                f"({'default: no false rows' if given is None else unparse(given)}): an an(set_of(...)) sub-query on the left of `|` no longer yields its "
                                f"failed rows, so solutions only the right operand accepts are lost (an(entity(...)) in the same place is fine)", line=call.lineno))
    if n < 4:
        raise AnalysisError(f"only {n} delegation(s) between evaluation methods of one node found")
    return out


# ---------------------------------------------------------------------------------- CONDITIONS-FORWARDED
def rule_conditions_forwarded(db: ProgramDB) -> List[Instance]:
    """The conditions of a query travel through the building functions as `*properties`: an(...) / the(...) / infer(...) hand them to
    select_one_or_select_many_or_infer, which hands them to entity(...) or set_of(...), which hand them to the extraction of the
    expression.  Whoever takes conditions as varargs and builds the query by calling another building function that takes them too
    passes them ON, in every arm (the short form an([x, y], cond) takes the list arm): a call that leaves them out builds the query
    without its conditions - every value of the selected variables is returned."""
    from ..boolexpr import guards_of
    out = []
    n = 0
    takers = {f.name: f for f in db.all_functions() if f.module == "entity" and f.cls is None and f.node.args.vararg is not None}
    for fn in sorted(takers.values(), key=lambda f: f.qualname):
        v = fn.node.args.vararg.arg
        for call in own_calls(fn):
            t = resolve_call_target(db, fn, call)
            if not (isinstance(t, FuncInfo) and t.name in takers and t.node.args.vararg.arg == v):
                continue            # only functions that take the same thing (the conditions of the query being built) under the same name
            n += 1
            forwards = any(isinstance(a, ast.Starred) and isinstance(a.value, ast.Name) and a.value.id == v for a in call.args)
            st_ = call
            while not isinstance(st_, ast.stmt):
                st_ = db.parent(st_)
            none_given = any((isinstance(g, ast.UnaryOp) and isinstance(g.op, ast.Not) and unparse(g.operand) == v and pol) or (unparse(g) == v and not pol)
                             or (isinstance(g, ast.BoolOp) and any(isinstance(x, ast.UnaryOp) and isinstance(x.op, ast.Not) and unparse(x.operand) == v for x in g.values) and pol)
                             for g, pol in (guards_of(st_, fn.node.body) or []))
            ok = forwards or none_given
            out.append(inst("CONDITIONS-FORWARDED", HOLDS if ok else VIOLATION, fn, f"{fn.short}[{unparse(call)[:50]}]",
                            "the conditions are passed on" + (" (or there are none on this path)" if none_given and not forwards else "") if ok else
                            f"`{unparse(call)}` builds the query without `*{v}`: the conditions given to {fn.name}(...) are dropped on this arm - an([x, combined], in_(x, combined)) "
                            f"returns every value of x", line=call.lineno))
    if n < 4:
        raise AnalysisError(f"only {n} forwarding calls found in the entity module")
    return out

