"""Further structural rules added after the first round of independently seeded changes (see DESIGN.md §7)."""
from __future__ import annotations

import ast
from typing import Dict, List, Optional, Set, Tuple

from ..db import ProgramDB, FuncInfo, ClassInfo, AnalysisError, unparse, own_nodes, dotted
from ..cfg import CFG, Node
from ..facts import alias_closure, is_len_minus_one, own_calls, call_attr, call_name, local_defs, resolve_call_target
from ..framework import inst, HOLDS, VIOLATION, UNDECIDED, INFO, Instance
from ..evalsites import site_model, is_eval_name
from .history import BUILTIN_MUTATORS

CLOBBER_EXCEPTIONS = {
    "Union.evaluate_right": "Union is not reachable through the public vocabulary (or_ always builds ElseIf; next_rule "
                            "is not exported); the in-place merge into its own copy is reported informationally",
}


def _loop_binding_arg(model, fn: FuncInfo, loop: ast.For) -> Optional[str]:
    """Name of the binding passed to the evaluation call whose stream `loop` iterates."""
    it = loop.iter
    cands = [it]
    if isinstance(it, ast.Name):
        cands += [d for d in local_defs(fn).get(it.id, []) if isinstance(d, ast.AST)]
    for c in cands:
        for x in ast.walk(c):
            if isinstance(x, ast.Call) and is_eval_name(call_attr(x)):
                for s in model.sites:
                    if s.call is x and isinstance(s.binding, ast.Name):
                        return s.binding.id
    return None


def rule_bind_no_clobber(db: ProgramDB) -> List[Instance]:
    """While a child's evaluation stream is being iterated, the binding it was started under belongs to that suspended
    generator: the loop body must not modify it (update / item assignment), or the child continues under a binding that
    already contains its own previous result."""
    out = []
    model = site_model(db)
    n = 0
    for fn in sorted(db.all_functions(), key=lambda f: f.qualname):
        for loop in model.stream_loops(fn):
            if not isinstance(loop, ast.For):
                continue
            b = _loop_binding_arg(model, fn, loop)
            if b is None:
                continue
            n += 1
            muts = []
            for s in loop.body:
                for x in [s] + list(own_nodes(s)):
                    if isinstance(x, ast.Call) and isinstance(x.func, ast.Attribute) and isinstance(x.func.value, ast.Name) \
                            and x.func.value.id == b and x.func.attr in BUILTIN_MUTATORS:
                        muts.append(x)
                    elif isinstance(x, (ast.Assign, ast.AugAssign)):
                        for t in (x.targets if isinstance(x, ast.Assign) else [x.target]):
                            if isinstance(t, ast.Subscript) and isinstance(t.value, ast.Name) and t.value.id == b:
                                muts.append(x)
            key = f"{fn.short}[for {unparse(loop.target)} in …({b})]"
            if muts and fn.short in CLOBBER_EXCEPTIONS:
                out.append(inst("BIND-NO-CLOBBER", INFO, fn, key, f"`{unparse(muts[0])[:50]}`: {CLOBBER_EXCEPTIONS[fn.short]}",
                                line=muts[0].lineno))
            elif muts:
                out.append(inst("BIND-NO-CLOBBER", VIOLATION, fn, key,
                                f"`{unparse(muts[0])[:60]}` modifies `{b}` inside the loop over the stream that was started "
                                f"under `{b}`: the suspended child evaluation continues under a binding that already holds its "
                                f"previous result (later candidates of a joined variable are overwritten by the first match)",
                                line=muts[0].lineno))
            else:
                out.append(inst("BIND-NO-CLOBBER", HOLDS, fn, key, f"`{b}` is not modified while the stream started under it is iterated",
                                line=loop.lineno))
    if n < 8:
        out.append(inst("BIND-NO-CLOBBER", UNDECIDED, "", "loops", f"only {n} loops with a named binding argument found"))
    return out


def rule_row_fresh(db: ProgramDB) -> List[Instance]:
    """A row that is extended and yielded inside a loop is a fresh dict per iteration of that loop: the copy that creates
    it sits in the same (innermost) loop as the yield, otherwise all rows of the loop are one object mutated in place."""
    out = []
    se = db.cls("SymbolicExpression")
    n = 0
    for c in sorted(se.all_subclasses(), key=lambda k: k.qualname):
        for m in c.methods.values():
            if not m.is_generator:
                continue
            loops = [l for l in own_nodes(m.node) if isinstance(l, (ast.For, ast.While))]
            for y in [x for x in own_nodes(m.node) if isinstance(x, ast.Yield) and isinstance(x.value, ast.Name)]:
                name = y.value.id
                enclosing = [l for l in loops if any(x is y for x in ast.walk(l))]
                if not enclosing:
                    continue
                inner = min(enclosing, key=lambda l: sum(1 for _ in ast.walk(l)))
                # is the name mutated inside the innermost loop?
                mutated = False
                for x in ast.walk(inner):
                    if isinstance(x, (ast.Assign, ast.AugAssign)):
                        for t in (x.targets if isinstance(x, ast.Assign) else [x.target]):
                            if isinstance(t, ast.Subscript) and isinstance(t.value, ast.Name) and t.value.id == name:
                                mutated = True
                    elif isinstance(x, ast.Call) and isinstance(x.func, ast.Attribute) and isinstance(x.func.value, ast.Name) \
                            and x.func.value.id == name and x.func.attr in ("update", "setdefault", "pop"):
                        mutated = True
                if not mutated:
                    continue
                fresh_defs = [a for a in own_nodes(m.node) if isinstance(a, ast.Assign) and any(
                    isinstance(t, ast.Name) and t.id == name for t in a.targets) and _is_fresh_row(a.value)]
                if not fresh_defs:
                    # the row is the loop variable itself (owned by this iteration) or a parameter - unless it is an alias of
                    # the row of an OUTER loop: then every row of the inner loop is that one dict, extended in place
                    alias_defs = [a for a in own_nodes(m.node) if isinstance(a, ast.Assign) and any(
                        isinstance(t, ast.Name) and t.id == name for t in a.targets) and isinstance(a.value, ast.Name)]
                    outer_targets = {x.id for l in enclosing if l is not inner and isinstance(l, ast.For)
                                     for x in ast.walk(l.target) if isinstance(x, ast.Name)}
                    al = [a for a in alias_defs if a.value.id in outer_targets]
                    if al:
                        n += 1
                        out.append(inst("ROW-FRESH", VIOLATION, m, f"{m.short}[yield {name}]",
                                        f"`{unparse(al[0])}` makes `{name}` the row of the outer loop itself; the inner loop "
                                        f"`{unparse(inner).splitlines()[0][:50]}` extends and yields it once per element: all "
                                        f"these rows are one dict, overwritten by the next element", line=y.lineno))
                    continue
                n += 1
                inside = [a for a in fresh_defs if any(x is a for x in ast.walk(inner))]
                ok = bool(inside)
                out.append(inst("ROW-FRESH", HOLDS if ok else VIOLATION, m, f"{m.short}[yield {name}]",
                                f"`{name}` is created (`{unparse(inside[0])[:40]}`) in the loop that extends and yields it" if ok else
                                f"`{name}` is created outside the loop `{unparse(inner).splitlines()[0][:50]}` that extends and "
                                f"yields it: every row of that loop is the same dict, overwritten by the next one (a consumer "
                                f"that keeps rows, e.g. the combination of constructor arguments, sees the last value in all)",
                                line=y.lineno))
    if n == 0:
        out.append(inst("ROW-FRESH", UNDECIDED, "", "rows", "no extended-and-yielded row found"))
    out.extend(_accumulating_binding_params(db))
    return out


ACCUMULATE_EXCEPTIONS = {
    ("Union.evaluate_right", "sources"):
        "every row of the right operand binds the same variables, so the dict accumulated over the iterations equals a fresh "
        "merge per row; both callers hand it a dict they do not read afterwards (a fresh copy, or the incoming binding at the "
        "end of the generator)",
}


def union_reachable_through_or(db: ProgramDB) -> Optional[str]:
    """None if `_optimize_or` provably always builds ElseIf, else the fact that fails.  It always builds ElseIf because
    (1) it chooses by comparing, with ==, the results of two `.filter(...)` calls on variable sets, (2) HashedIterable.filter
    wraps a lazy iterator and passes no `values`, so the result's memo is empty until it is iterated, and (3)
    HashedIterable.__eq__ compares the memos only."""
    fn = db.fn("symbolic:_optimize_or", required=False)
    if fn is None:
        return "_optimize_or not found"
    tests = [n for n in own_nodes(fn.node) if isinstance(n, ast.If) and isinstance(n.test, ast.Compare) and isinstance(n.test.ops[0], ast.Eq)]
    if not tests:
        return "_optimize_or no longer chooses by comparing two variable sets"
    defs = local_defs(fn)
    for nm in [x.id for x in ast.walk(tests[0].test) if isinstance(x, ast.Name)]:
        ds = [d for d in defs.get(nm, []) if isinstance(d, ast.AST)]
        if not ds or not all(isinstance(d, ast.Call) and call_attr(d) == "filter" for d in ds):
            return f"`{nm}` in _optimize_or is not the result of .filter(...)"
    hi = db.cls("HashedIterable")
    flt = hi.methods.get("filter")
    if flt is None:
        return "HashedIterable.filter not found"
    rets = [r for r in own_nodes(flt.node) if isinstance(r, ast.Return) and r.value is not None]
    for r in rets:
        v = r.value
        lazy = isinstance(v, ast.Call) and (dotted(v.func) or "").endswith("HashedIterable") and not any(k.arg == "values" for k in v.keywords) \
            and len(v.args) == 1 and isinstance(v.args[0], ast.Call) and dotted(v.args[0].func) in ("filter", "map", "iter")
        if not lazy:
            return f"HashedIterable.filter returns `{unparse(v)[:60]}`, a set whose values are filled at once, so _optimize_or compares real " \
                   f"variable sets and builds a Union when they differ"
    eq = hi.methods.get("__eq__")
    if eq is None or not all("values" in unparse(r.value) or isinstance(r.value, (ast.Constant, ast.Name)) for r in own_nodes(eq.node)
                             if isinstance(r, ast.Return) and r.value is not None):
        return "HashedIterable.__eq__ no longer compares the memos only"
    return None


def _accumulating_binding_params(db: ProgramDB) -> List[Instance]:
    """The binding a generator was called with is not extended in place, iteration after iteration, inside a loop over an
    evaluation stream and then handed on: what one iteration adds (the value of a selected variable, of an argument) would
    still be bound in the next one, and an expression that finds itself bound is not enumerated again."""
    from .binding import binding_params, names_in
    out = []
    se = db.cls("SymbolicExpression")
    model = site_model(db)
    for c in sorted([se] + se.all_subclasses(), key=lambda k: k.qualname):
        for m in c.methods.values():
            if not m.is_generator:
                continue
            bps = binding_params(m)
            if not bps:
                continue
            for loop in [l for l in model.stream_loops(m) if isinstance(l, ast.For)]:
                body_nodes = [x for st in loop.body for x in ast.walk(st)]
                for bp in sorted(bps):
                    mut = None
                    for x in body_nodes:
                        if isinstance(x, ast.Call) and isinstance(x.func, ast.Attribute) and isinstance(x.func.value, ast.Name) \
                                and x.func.value.id == bp and x.func.attr in ("update", "setdefault", "pop", "__setitem__"):
                            mut = x
                        if isinstance(x, (ast.Assign, ast.AugAssign)):
                            for t in (x.targets if isinstance(x, ast.Assign) else [x.target]):
                                if isinstance(t, ast.Subscript) and isinstance(t.value, ast.Name) and t.value.id == bp:
                                    mut = x
                    if mut is None:
                        continue
                    handed = [x for x in body_nodes if (isinstance(x, ast.Yield) and x.value is not None and bp in names_in(x.value))
                              or (isinstance(x, ast.Call) and x is not mut and any(isinstance(a, ast.Name) and a.id == bp
                                                                                   for a in list(x.args) + [k.value for k in x.keywords])
                                  and not (dotted(x.func) or "") in ("copy", "dict", "copy.copy", "len", "isinstance"))]
                    if not handed:
                        continue
                    key = f"{m.short}[`{bp}` extended in the loop over {unparse(loop.iter)[:36]}]"
                    exc = ACCUMULATE_EXCEPTIONS.get((m.short, bp))
                    if exc:
                        reach = union_reachable_through_or(db)
                        if reach is None:
                            out.append(inst("ROW-FRESH", INFO, m, key, f"frozen exception: {exc}; or_ / | never build a Union "
                                            f"(_optimize_or compares two lazily filled variable sets, see the three facts checked)", line=mut.lineno))
                        else:
                            out.append(inst("ROW-FRESH", VIOLATION, m, key,
                                            f"`{unparse(mut)[:50]}` extends the binding Union.evaluate_right was called with - the row of the enclosing "
                                            f"conjunction - in place; that was tolerable only while or_ / | could not build a Union, which no longer "
                                            f"holds: {reach}. A disjunction over different variables under and_ then returns rows that depend on the "
                                            f"order of the operands", line=mut.lineno))
                        continue
                    out.append(inst("ROW-FRESH", VIOLATION, m, key,
                                    f"`{unparse(mut)[:50]}` extends the binding this generator was called with in every iteration of "
                                    f"the loop and hands it on (`{unparse(handed[0])[:60]}`): the bindings one iteration adds are still "
                                    f"there in the next one, so an expression bound by the previous row is not enumerated again (with "
                                    f"two unconstrained selected variables only the last value of the second one is paired with "
                                    f"every value of the first but the first)", line=mut.lineno))
    return out


def _is_fresh_row(v: ast.AST) -> bool:
    if isinstance(v, ast.Dict):
        return True
    if isinstance(v, ast.Call):
        d = dotted(v.func) or ""
        if d in ("copy", "dict", "copy.copy"):
            return True
        if isinstance(v.func, ast.Attribute) and v.func.attr == "copy" and not v.args:
            return True
    return False


def rule_except_fired(db: ProgramDB) -> List[Instance]:
    """ExceptIf takes 'the refinement side produced a row' for 'the refinement fired', so it must ask that side for its
    true rows only."""
    out = []
    m = db.method("ExceptIf", "_evaluate__", inherited=False)
    sites = [s for s in site_model(db).sites if s.fn.qualname == m.qualname and s.origins == ["self.right"]]
    if not sites:
        raise AnalysisError("ExceptIf._evaluate__: evaluation of the refinement side not found")
    for s in sites:
        # accepted: constant False, or the loop body tests the operand's truth flag before treating the row as a hit
        loop = s.consumer_node if isinstance(s.consumer_node, ast.For) else None
        tests_flag = loop is not None and any(isinstance(x, ast.If) and "self.right._is_false_" in unparse(x.test) for x in loop.body[:2])
        default_false = s.ywf[0] == "default" and isinstance(s.ywf[1], ast.Constant) and s.ywf[1].value is False
        ok = s.ywf == ("const", False) or default_false or tests_flag
        out.append(inst("EXCEPT-FIRED", HOLDS if ok else VIOLATION, m, f"ExceptIf._evaluate__[{unparse(s.call)[:50]}]",
                        "the refinement side is asked for true rows only" if ok else
                        "the refinement side can yield rows on which its condition is false, and every row it yields counts as "
                        "'the refinement fired': its conclusion replaces the refined one where it does not apply", line=s.line))
    return out


def rule_flatten_paths(db: ProgramDB) -> List[Instance]:
    out = []
    m = db.method("Flatten", "_apply_mapping_", inherited=False)
    cfg = CFG(m)
    loops = [n for n in cfg.nodes if n.kind == "for" and not n.region]
    if len(loops) != 1:
        raise AnalysisError("Flatten._apply_mapping_: loop over the inner value not found")
    loop = loops[0]
    p = cfg.find_path(cfg.entry, lambda n: n.kind in ("exit", "return"), kinds=("n",), blocked=lambda n: n.id == loop.id)
    ok = p is None
    out.append(inst("FLATTEN-EACH", HOLDS if ok else VIOLATION, m, "Flatten._apply_mapping_[every value reaches the loop]",
                    "every path goes through the loop over the inner value" if ok else
                    "a path returns before the loop over the inner value: some values (e.g. falsy scalars) yield no row at all: "
                    + " ".join(cfg.describe_path(p)[-3:])))
    # the element's wrapper takes its identity from the element, not from the parent value
    param = m.positional_params[1]
    for y in [x for x in own_nodes(m.node) if isinstance(x, ast.Yield) and isinstance(x.value, ast.Call)]:
        call = y.value
        inherits = any(k.arg in ("id_",) and param in unparse(k.value) for k in call.keywords) or \
            (len(call.args) >= 2 and param in unparse(call.args[1]))
        out.append(inst("FLATTEN-EACH", VIOLATION if inherits else HOLDS, m, "Flatten._apply_mapping_[element identity]",
                        f"`{unparse(call)}` gives every element of one parent the parent's identity: duplicate suppression and "
                        f"cache keys then cannot tell the elements of a parent apart" if inherits else
                        f"`{unparse(call)}`: each element is identified by itself", line=y.lineno))
    return out


def rule_apply_always(db: ProgramDB) -> List[Instance]:
    """Comparator.apply_operation returns the operator applied to the two operand values on every path (no value-dependent
    short-cut that answers instead of the operator)."""
    out = []
    m = db.method("Comparator", "apply_operation")
    app_names = set()
    for n in own_nodes(m.node):
        if isinstance(n, ast.Assign) and isinstance(n.value, ast.Call) and unparse(n.value.func) == "self.operation":
            for t in n.targets:
                if isinstance(t, ast.Name):
                    app_names.add(t.id)
    rets = [n for n in own_nodes(m.node) if isinstance(n, ast.Return)]
    if not rets:
        raise AnalysisError("apply_operation has no return")
    for r in rets:
        v = r.value
        ok = (isinstance(v, ast.Call) and unparse(v.func) == "self.operation") or (isinstance(v, ast.Name) and v.id in app_names)
        out.append(inst("APPLY-ALWAYS", HOLDS if ok else VIOLATION, m, f"Comparator.apply_operation[return {unparse(v)[:30] if v else ''}]",
                        "returns the result of the operator" if ok else
                        f"`{unparse(r)}` answers without applying the operator: for some operand values (None, …) the comparison "
                        f"or membership test no longer follows Python semantics", line=r.lineno))
    return out


def rule_literal_wrap(db: ProgramDB) -> List[Instance]:
    """A literal is a one-element domain whatever its value: Literal.__init__ wraps the datum in a container on every path
    (a falsy bare datum handed on as the domain is taken for 'no domain')."""
    out = []
    m = db.method("Literal", "__init__", inherited=False)
    cfg = CFG(m)
    param = m.positional_params[1]

    def wraps(n: Node) -> bool:
        a = n.ast
        if n.kind == "stmt" and isinstance(a, ast.Assign) and any(isinstance(t, ast.Name) and t.id == param for t in a.targets):
            v = a.value
            if isinstance(v, (ast.List, ast.Tuple)) and len(v.elts) == 1:
                return True
            if isinstance(v, ast.Call) and v.args and isinstance(v.args[0], (ast.List, ast.Tuple)) and len(v.args[0].elts) == 1:
                return True
        return False

    def is_super_init(n: Node) -> bool:
        return n.ast is not None and n.kind == "stmt" and any(
            isinstance(c, ast.Call) and call_attr(c) == "__init__" and isinstance(c.func.value, ast.Call) for c in ast.walk(n.ast))
    if not any(is_super_init(n) for n in cfg.nodes):
        raise AnalysisError("Literal.__init__: call of super().__init__ not found")
    p = cfg.find_path(cfg.entry, is_super_init, kinds=("n",), blocked=wraps)
    ok = p is None
    out.append(inst("LITERAL-WRAP", HOLDS if ok else VIOLATION, m, "Literal.__init__[datum wrapped on every path]",
                    "the datum is wrapped into a one-element container before it becomes the domain" if ok else
                    "on some path the bare datum becomes the domain: a falsy literal (0, '', None, False) is then taken for 'no "
                    "domain' and the literal has no value, so `x.level == 0` returns nothing: " + " ".join(cfg.describe_path(p)[-3:])))
    return out


def rule_none_tests(db: ProgramDB) -> List[Instance]:
    """What is stored under a key of the index is a sub-trie or, at the last level, an output - and an output can be any
    value: the engine stores False for every true row, and nothing forbids None.  Whether something is stored under a key is
    therefore decided by membership (`k in node`); a value read with .get() may be tested by identity with None only at a
    level that cannot hold an output (strictly before the last key), and never by truthiness."""
    from ..boolexpr import guards_of
    out = []
    ic = db.cls("IndexedCache")
    n = 0
    for m in ic.methods.values():
        got: Set[str] = set()
        # the index nodes: self.cache, a parameter named `cache` (the recursion), and what is read out of one of them
        tries: Set[str] = {"self.cache"} | ({"cache"} if "cache" in m.params else set())
        get_calls: Dict[str, ast.Call] = {}
        changed = True
        while changed:
            changed = False
            for a in own_nodes(m.node):
                if isinstance(a, ast.Assign) and len(a.targets) == 1 and isinstance(a.targets[0], ast.Name):
                    t = a.targets[0].id
                    v = a.value
                    if unparse(v) in tries and t not in tries:
                        tries.add(t)
                        changed = True
                    if isinstance(v, ast.Subscript) and unparse(v.value) in tries and t not in tries:
                        tries.add(t)
                        changed = True
                    if isinstance(v, ast.Call) and call_attr(v) == "get" and unparse(v.func.value) in tries:
                        if t not in got:
                            got.add(t)
                            get_calls[t] = a
                            changed = True
                        if t not in tries:
                            tries.add(t)       # a sub-trie read from a trie is a trie
                            changed = True
        for t in own_nodes(m.node):
            if isinstance(t, (ast.If, ast.While, ast.IfExp)):
                for leaf in _bool_leaves(t.test):
                    if (isinstance(leaf, ast.Name) and leaf.id in got) or \
                            (isinstance(leaf, ast.Call) and call_attr(leaf) == "get" and unparse(leaf.func.value) in tries) or \
                            (isinstance(leaf, ast.Subscript) and unparse(leaf.value) in tries):
                        n += 1
                        out.append(inst("NONE-TEST", VIOLATION, m, f"{m.short}[if {unparse(leaf)[:40]}]",
                                        f"`{unparse(t.test)}` tests a value read from the index by truthiness: a stored output "
                                        f"that is falsy (False, 0, None-like) is taken for 'nothing stored' and the entry is "
                                        f"missed or replaced by the wildcard walk", line=t.lineno))
                    elif isinstance(leaf, ast.Compare) and isinstance(leaf.left, ast.Name) and leaf.left.id in got:
                        n += 1
                        if not all(isinstance(o, (ast.Is, ast.IsNot)) for o in leaf.ops):
                            out.append(inst("NONE-TEST", VIOLATION, m, f"{m.short}[{unparse(leaf)}]",
                                            f"`{unparse(leaf)}` compares a stored value with ==", line=t.lineno))
                            continue
                        # identity with None: only where the level cannot hold an output
                        src = get_calls[leaf.left.id]
                        g = guards_of(src, m.node.body) or []
                        keys_names = {"self.keys", "self._keys"} | alias_closure(m, {"self.keys", "self._keys"})
                        before_last = any(pol and isinstance(tt, ast.Compare) and len(tt.ops) == 1 and isinstance(tt.ops[0], ast.Lt)
                                          and is_len_minus_one(m, tt.comparators[0], keys_names) for tt, pol in g)
                        out.append(inst("NONE-TEST", HOLDS if before_last else VIOLATION, m, f"{m.short}[{unparse(leaf)}]",
                                        "presence tested by identity with None at a level strictly before the last key (sub-tries only)" if before_last else
                                        f"`{unparse(leaf)}` takes a value read with .get() for absent when it is None, at a level that can hold "
                                        f"an output: an entry whose output is None is reported as covered by check() and not returned by retrieve()",
                                        line=t.lineno))
                    elif isinstance(leaf, ast.Compare) and len(leaf.ops) == 1 and isinstance(leaf.ops[0], (ast.In, ast.NotIn)) \
                            and unparse(leaf.comparators[0]) in tries:
                        n += 1
                        out.append(inst("NONE-TEST", HOLDS, m, f"{m.short}[{unparse(leaf)}]", "presence decided by membership", line=t.lineno))
    if n == 0:
        raise AnalysisError("IndexedCache: no presence test on the contents of the index found")
    return out


def _bool_leaves(e: ast.AST):
    if isinstance(e, ast.BoolOp):
        for v in e.values:
            yield from _bool_leaves(v)
    elif isinstance(e, ast.UnaryOp) and isinstance(e.op, ast.Not):
        yield from _bool_leaves(e.operand)
    else:
        yield e


def rule_leaf_overwrite(db: ProgramDB) -> List[Instance]:
    out = []
    ic = db.cls("IndexedCache")
    m = ic.methods.get("insert")
    if m is None:
        raise AnalysisError("IndexedCache.insert not found")
    op = m.positional_params[2] if len(m.positional_params) > 2 else "output"
    stores = []
    for n in own_nodes(m.node):
        if isinstance(n, ast.Assign) and isinstance(n.value, ast.Name) and n.value.id == op and any(isinstance(t, ast.Subscript) for t in n.targets):
            stores.append((n, True))
        elif isinstance(n, ast.Call) and call_attr(n) == "setdefault" and any(isinstance(a, ast.Name) and a.id == op for a in n.args):
            stores.append((n, False))
    if not stores:
        raise AnalysisError("IndexedCache.insert: leaf store of the output not found")
    for n, ok in stores:
        out.append(inst("LEAF-OVERWRITE", HOLDS if ok else VIOLATION, m, f"IndexedCache.insert[{unparse(n)[:40]}]",
                        "a later insert under the same binding replaces the stored output" if ok else
                        f"`{unparse(n)[:50]}` keeps the first output stored under a binding: re-inserting the binding with another "
                        f"output is ignored and retrieval returns the stale one", line=n.lineno))
    return out


# ---------------------------------------------------------------------------------- LEAF-REACHED / WILDCARD-DISTINCT
def rule_insert_reaches_store(db: ProgramDB) -> List[Instance]:
    """Every insert into the index tree walks to its leaf: with index=True no path returns before the loop over the keys
    (an early return for a binding that 'is stored already' keeps the first output stored under it)."""
    from ..abseval import AbsEval, State, TRUE
    from ..cfg import CFG
    out = []
    ic = db.cls("IndexedCache")
    m = ic.methods.get("insert")
    if m is None:
        raise AnalysisError("IndexedCache.insert not found")
    cfg = CFG(m)
    keys_names = {"self.keys", "self._keys"} | alias_closure(m, {"self.keys", "self._keys"})
    loops = [nd for nd in cfg.nodes if nd.kind == "for" and any(unparse(x) in keys_names for x in ast.walk(nd.stmt.iter))]
    if not loops:
        raise AnalysisError("IndexedCache.insert: loop over the keys not found")
    def attr_hook(e, st, ev_):
        # a key list that is not empty: with no keys there is no leaf, and leaving early is the same as not looping
        if isinstance(e, ast.Attribute) and isinstance(e.value, ast.Name) and e.value.id == "self" and e.attr in ("keys", "_keys"):
            return ("obj", "truthy")
        return None
    ev = AbsEval(db, m, cfg, attr_hook=attr_hook)
    ip = "index" if "index" in m.params else None
    init = State({ip: TRUE}) if ip else State({})
    p = ev.explore([(cfg.entry, init)], lambda nd: nd.kind in ("return", "exit"), blocked=lambda nd: nd.id == loops[0].id, kinds=("n",))
    ok = p is None
    out.append(inst("LEAF-OVERWRITE", HOLDS if ok else VIOLATION, m, "IndexedCache.insert[every insert reaches the leaf store]",
                    "with index=True every path goes through the loop that walks to the leaf and stores the output" if ok else
                    "with index=True a path leaves insert() before the leaf is written (" + " ".join(cfg.describe_path(p)[-2:]) + "): an insert under a "
                    "binding that was inserted before keeps the old output, retrieval returns the stale one", line=m.lineno))
    return out


def rule_wildcard_distinct(db: ProgramDB) -> List[Instance]:
    """The wildcard sentinel compares equal to everything, so in a dict it is told apart from a stored value only by its
    hash: the hash has to be one no value can share by construction (derived from the sentinel's identity), not a constant
    (0 is the hash of 0, False, 0.0 and '')."""
    out = []
    c = db.cls("ALL")
    eq, h = c.methods.get("__eq__"), c.methods.get("__hash__")
    if eq is None or h is None:
        raise AnalysisError("ALL.__eq__ / __hash__ not found")
    eq_true = all(isinstance(r.value, ast.Constant) and r.value.value is True for r in own_nodes(eq.node) if isinstance(r, ast.Return))
    rets = [r for r in own_nodes(h.node) if isinstance(r, ast.Return) and r.value is not None]
    ident = all(any(isinstance(x, ast.Call) and dotted(x.func) == "id" for x in ast.walk(r.value)) or
                "object.__hash__" in unparse(r.value) or "super().__hash__" in unparse(r.value) for r in rets) and bool(rets)
    ok = ident or not eq_true
    out.append(inst("WILDCARD-DISTINCT", HOLDS if ok else VIOLATION, h, "ALL.__hash__[not shared with values]",
                    "the sentinel hashes by identity" if ok else
                    f"`{unparse(rets[0])}`: the sentinel equals everything and hashes to a value that stored key values can share (0, False, 0.0, ''): "
                    f"an entry whose key value has that hash and the wildcard entry of the same level are one dict key, so entries are merged "
                    f"into the wildcard branch or returned for lookups they do not match", line=h.lineno))
    return out


# ---------------------------------------------------------------------------------- CALL-FORWARD
def rule_call_forward(db: ProgramDB) -> List[Instance]:
    """A symbolic method call applies the method with the arguments it was built with: the bare form `value.value()` is
    used only when there are neither positional nor keyword arguments."""
    from ..boolexpr import guards_of, eval_bool
    import itertools
    out = []
    m = db.method("Call", "_apply_mapping_", inherited=False)
    calls = [c for c in own_calls(m) if isinstance(c.func, ast.Attribute) and c.func.attr == "value" and isinstance(c.func.value, ast.Name)]
    if not calls:
        raise AnalysisError("Call._apply_mapping_: application of the user's callable not found")

    def atom(e):
        s = unparse(e)
        def which(s):
            a, k = "_args_" in s, "_kwargs_" in s
            return "A" if a and not k else ("K" if k and not a else None)
        if isinstance(e, (ast.Attribute, ast.Name)) and which(s):
            return which(s)
        if isinstance(e, ast.Call) and dotted(e.func) in ("len", "bool") and which(s):
            return which(s)
        if isinstance(e, ast.Compare) and len(e.ops) == 1 and which(unparse(e.left)) and isinstance(e.comparators[0], ast.Constant) \
                and e.comparators[0].value in (0, ()) :
            w = which(unparse(e.left))
            if isinstance(e.ops[0], (ast.Gt, ast.NotEq)):
                return w
            if isinstance(e.ops[0], (ast.Eq,)):
                return "!" + w
        return None
    for c in calls:
        fwd_a = any(isinstance(a, ast.Starred) and "_args_" in unparse(a.value) for a in c.args)
        fwd_k = any(k.arg is None and "_kwargs_" in unparse(k.value) for k in c.keywords)
        st = c
        while st is not None and not isinstance(st, ast.stmt):
            st = db.parent(st)
        g = guards_of(st, m.node.body) or []
        bad = None
        for A, K in itertools.product([False, True], repeat=2):
            try:
                reach = all(bool(eval_bool(t, atom, {"A": A, "K": K})) == pol for t, pol in g)
            except AnalysisError as e:
                out.append(inst("CALL-FORWARD", UNDECIDED, m, f"Call._apply_mapping_[{unparse(c)[:40]}]", str(e), line=c.lineno))
                reach = False
                break
            if reach and ((A and not fwd_a) or (K and not fwd_k)):
                bad = (A, K)
        out.append(inst("CALL-FORWARD", HOLDS if bad is None else VIOLATION, m, f"Call._apply_mapping_[{unparse(c)[:40]}]",
                        "reached only with the arguments it forwards" if bad is None else
                        f"`{unparse(c)}` is reached when positional arguments {'exist' if bad[0] else 'are absent'} and keyword arguments "
                        f"{'exist' if bad[1] else 'are absent'}, and does not forward them: p.older_than(limit=40) is executed as p.older_than()", line=c.lineno))
    return out


# ---------------------------------------------------------------------------------- KWARGS-KEPT
def rule_kwargs_kept(db: ProgramDB) -> List[Instance]:
    """Every field constraint / constructor argument that was given reaches the variable: the keyword dictionary is not
    filtered by the VALUE of an argument (None, 0, '' and [] are constants like any other)."""
    out = []
    n = 0
    for q in ("predicate:update_domain_and_kwargs_from_args", "predicate:symbol.<locals>.symbolic_new", "predicate:extract_selected_variable_and_expression",
              "predicate:predicate.<locals>.wrapper", "symbolic:Variable._update_child_vars_from_kwargs_"):
        fn = db.fn(q, required=False)
        if fn is None:
            continue
        n += 1
        bad = None
        for x in own_nodes(fn.node):
            if isinstance(x, (ast.DictComp, ast.ListComp, ast.GeneratorExp)):
                for g in x.generators:
                    if "kwargs" in unparse(g.iter).lower() and g.ifs and isinstance(g.target, ast.Tuple) and len(g.target.elts) == 2:
                        vn = unparse(g.target.elts[1])
                        for t in g.ifs:
                            if vn in {y.id for y in ast.walk(t) if isinstance(y, ast.Name)}:
                                bad = x
            if isinstance(x, ast.For) and "kwargs" in unparse(x.iter).lower() and isinstance(x.target, ast.Tuple) and len(x.target.elts) == 2:
                vn = unparse(x.target.elts[1])
                for st in x.body:
                    if isinstance(st, ast.If) and vn in {y.id for y in ast.walk(st.test) if isinstance(y, ast.Name)} and any(
                            isinstance(z, (ast.Continue, ast.Delete)) or (isinstance(z, ast.Call) and call_attr(z) == "pop") for z in ast.walk(st)) \
                            and not any(isinstance(z, ast.Call) and dotted(z.func) == "isinstance" for z in ast.walk(st.test)):
                        bad = st
        out.append(inst("KWARGS-KEPT", HOLDS if bad is None else VIOLATION, fn, f"{fn.short}[given arguments are kept]",
                        "no given keyword is dropped because of its value" if bad is None else
                        f"`{unparse(bad)[:80]}` drops keywords by their value: T(From(d), f=None) then ranges over every member of d instead of those "
                        f"whose f is None, and a constructor argument None is replaced by the class default", line=getattr(bad, "lineno", fn.lineno) if bad is not None else fn.lineno))
    if n < 3:
        raise AnalysisError("the functions that carry the keyword arguments of a term were not found")
    return out


# ---------------------------------------------------------------------------------- VALUE-IDENTITY
def rule_value_identity(db: ProgramDB) -> List[Instance]:
    """Everything that compares bound values (duplicate suppression, the cache index, joins through a shared variable, the
    for_all key) goes through HashedValue: two wrapped values are the same value exactly when their identifiers agree - the
    hash is the identifier, so equality has to be the identifier as well.  Decided by evaluating __eq__ for two wrappers in
    the four combinations of 'same identifier' and 'equal payload'."""
    from ..boolexpr import eval_bool
    from ..cfg import CFG
    out = []
    hv = db.cls("HashedValue")
    m = hv.methods.get("__eq__")
    h = hv.methods.get("__hash__")
    if m is None or h is None:
        raise AnalysisError("HashedValue.__eq__ / __hash__ not found")
    hashed_by_id = any(isinstance(x, ast.Attribute) and x.attr == "id_" for x in own_nodes(h.node)) and \
        not any(isinstance(x, ast.Attribute) and x.attr == "value" for x in own_nodes(h.node))
    op = m.positional_params[1]
    cfg = CFG(m)

    def atom(e):
        u = unparse(e)
        if isinstance(e, ast.Compare) and len(e.ops) == 1 and isinstance(e.ops[0], (ast.Eq, ast.NotEq, ast.Is, ast.IsNot)):
            l, r = unparse(e.left), unparse(e.comparators[0])
            neg = "!" if isinstance(e.ops[0], (ast.NotEq, ast.IsNot)) else ""
            if {l, r} == {"self.id_", f"{op}.id_"}:
                return neg + "ID"
            if {l, r} == {"self.value", f"{op}.value"}:
                return neg + "PAYLOAD"
            if {l, r} == {"self", op}:
                return neg + "SAMEOBJ"
            if {l, r} == {"hash(self)", f"hash({op})"}:
                return neg + "ID"
        if isinstance(e, ast.Call) and dotted(e.func) == "isinstance" and len(e.args) == 2 and unparse(e.args[0]) == op:
            c = unparse(e.args[1])
            return "IS_WILD" if c in ("ALL", "All") else ("IS_HV" if c.endswith("HashedValue") else None)
        return None
    for same_id in (True, False):
        for payload in (True, False):
            env = {"ID": same_id, "PAYLOAD": payload, "SAMEOBJ": False, "IS_WILD": False, "IS_HV": True}
            cur = cfg.entry
            result = None
            steps = 0
            try:
                while steps < 200:
                    steps += 1
                    nd = cfg.nodes[cur]
                    if nd.kind == "return":
                        result = bool(eval_bool(nd.ast.value, atom, env)) if nd.ast.value is not None else False
                        break
                    if nd.id == cfg.exit:
                        result = False
                        break
                    nxt = [e for e in cfg.succ[cur] if e.kind == "n"]
                    if nd.kind == "test":
                        t = bool(eval_bool(nd.stmt.test, atom, env))
                        nxt = [e for e in nxt if e.label == ("T" if t else "F")]
                    if len(nxt) != 1:
                        raise AnalysisError(f"`{nd.src()[:40]}`: {len(nxt)} successors")
                    cur = nxt[0].dst
            except (AnalysisError, KeyError) as ex:
                out.append(inst("VALUE-IDENTITY", UNDECIDED, m, f"HashedValue.__eq__[same id={same_id}, equal payload={payload}]", f"not decidable: {ex}", line=m.lineno))
                continue
            ok = result == same_id
            out.append(inst("VALUE-IDENTITY", HOLDS if ok else VIOLATION, m, f"HashedValue.__eq__[same id={same_id}, equal payload={payload}]",
                            f"equal: {result}" if ok else
                            f"two wrappers with {'the same' if same_id else 'different'} identifiers and {'equal' if payload else 'unequal'} payloads compare "
                            f"{'equal' if result else 'unequal'}: equality no longer is identity of the identifier (which the hash is), so two distinct objects "
                            f"that compare equal (dataclasses with eq=True, equal strings in two fields) are one value for the cache coverage test and the "
                            f"duplicate suppression - rows are answered from another object's cache entry or dropped as duplicates", line=m.lineno))
    # where identifiers come from: the identity of the wrapped object (or an identifier it carries), never a function of its value
    pi = hv.methods.get("__post_init__")
    if pi is None:
        raise AnalysisError("HashedValue.__post_init__ not found")
    n_src = 0
    for a in own_nodes(pi.node):
        if isinstance(a, ast.Assign) and any(isinstance(t, ast.Attribute) and t.attr == "id_" and isinstance(t.value, ast.Name) and t.value.id == "self" for t in a.targets):
            n_src += 1
            v = a.value
            by_identity = (isinstance(v, ast.Call) and dotted(v.func) == "id" and len(v.args) == 1) or \
                (isinstance(v, ast.Attribute) and v.attr in ("id_", "_id_"))
            by_value = any(isinstance(c, ast.Call) and dotted(c.func) in ("hash", "repr", "str") for c in ast.walk(v))
            out.append(inst("VALUE-IDENTITY", HOLDS if by_identity else (VIOLATION if by_value else UNDECIDED), pi, f"HashedValue.__post_init__[{unparse(a)[:40]}]",
                            "the identifier is the identity of the wrapped object or an identifier it carries" if by_identity else
                            (f"`{unparse(a)}` derives the identifier from the VALUE: hash() is not injective (hash(-1) == hash(-2), hash(1) == hash(True) == hash(1.0)), so "
                             f"two different elements of one flattened collection are one value for the result caches and the duplicate suppression - "
                             f"and_(r < 0, r != -1) over [-1, -2] returns (s, -1), or_(r > 5, r < 0) loses rows" if by_value else
                             f"`{unparse(a)}`: source of the identifier not in the accepted table"), line=a.lineno))
            # an identifier the wrapped object carries is believed only of the package's own objects (a type test), not of anything that
            # happens to have - or to answer for - an attribute of that name
            if isinstance(v, ast.Attribute) and v.attr == "_id_":
                from ..boolexpr import guards_of
                gs = guards_of(a, pi.node.body) or []
                typed = [g for g, pol in gs if pol and isinstance(g, ast.Call) and dotted(g.func) == "isinstance" and len(g.args) == 2
                         and unparse(g.args[0]) == unparse(v.value)
                         and all(db.class_by_name.get(unparse(t).split(".")[-1]) for t in (g.args[1].elts if isinstance(g.args[1], ast.Tuple) else [g.args[1]]))]
                probed = [g for g, pol in gs if pol and any(isinstance(c, ast.Call) and dotted(c.func) in ("hasattr", "getattr") for c in ast.walk(g))]
                okp = bool(typed)
                out.append(inst("VALUE-IDENTITY", HOLDS if okp else VIOLATION, pi, "HashedValue.__post_init__[carried identifier: only of the package's own objects]",
                                f"`{unparse(a)}` under `{unparse(typed[0])}`" if okp else
                                f"`{unparse(a)}` is reached for any object that has - or answers for - an attribute `_id_`" +
                                (f" (`{unparse(probed[0])}`)" if probed else "") +
                                ": user objects with a field of that name and equal values, or with a `__getattr__` that answers every name, are ONE value for "
                                "the domains, the result caches and the duplicate filters - a domain of distinct objects collapses (let(W, [W(_id_=1), W(_id_=1)]) "
                                "ranges over one object)", line=a.lineno))
    if n_src == 0:
        raise AnalysisError("HashedValue.__post_init__: no assignment of the identifier found")
    out.append(inst("VALUE-IDENTITY", HOLDS if hashed_by_id else VIOLATION, h, "HashedValue.__hash__[the identifier]",
                    "the hash is the hash of the identifier" if hashed_by_id else "the hash is not derived from the identifier alone", line=h.lineno))
    return out


# ---------------------------------------------------------------------------------- ROW-NOT-RETAINED
def rule_row_not_retained(db: ProgramDB) -> List[Instance]:
    """A row is the consumer's from the moment it is yielded: the operators complete rows in place (`first_value.update(sources)`,
    `left_value.update(sources)`, the descriptor binds the selected variables into it).  So no generator of the engine yields a dict it
    also keeps - an element or attribute of its own state (a memo of bindings per domain value): what a consumer writes into it
    during one step of the search would be there again the next time the same object is handed out, and bindings of other
    variables leak from one assignment into another.  Provenance rule: the yielded expression (through local assignments and
    loop targets) is not a load from `self.<state>`; what a call returns is the callee's business (the index copies)."""
    from ..facts import local_defs
    out = []
    se = db.cls("SymbolicExpression")
    n = 0
    for c in sorted([se] + se.all_subclasses(), key=lambda k: k.qualname):
        for m in c.methods.values():
            if m.cls is not c or not m.is_generator:
                continue
            defs = local_defs(m)

            def stored_origin(e, depth=0, seen=None) -> Optional[ast.AST]:
                seen = seen or set()
                if isinstance(e, tuple):
                    # a loop target: elements of the iterated collection
                    if e[0] == "iter":
                        it = e[1]
                        while isinstance(it, ast.Call) and isinstance(it.func, ast.Attribute) and it.func.attr in ("values", "items", "keys") and not it.args:
                            it = it.func.value
                        return stored_origin(it, depth + 1, seen) if not isinstance(it, ast.Call) else None
                    if e[0] == "unpack":
                        return stored_origin(("iter", e[1][1]) if isinstance(e[1], tuple) and e[1][0] == "iter" else e[1], depth + 1, seen)
                    return None
                if isinstance(e, ast.Name):
                    if e.id in seen or depth > 4:
                        return None
                    seen = seen | {e.id}
                    for d in defs.get(e.id, []):
                        r = stored_origin(d, depth + 1, seen)
                        if r is not None:
                            return r
                    return None
                if isinstance(e, ast.Subscript):
                    return stored_origin(e.value, depth, seen) and e
                if isinstance(e, ast.Attribute):
                    if isinstance(e.value, ast.Name) and e.value.id == "self":
                        return e
                    return stored_origin(e.value, depth, seen)
                if isinstance(e, ast.Call) and isinstance(e.func, ast.Attribute) and e.func.attr in ("setdefault", "get", "__getitem__"):
                    # an element of a kept mapping, by method: self.__dict__.setdefault('memo', {}), self.memo.get(key)
                    r = stored_origin(e.func.value, depth, seen)
                    return r and ast.Subscript(value=e.func.value, slice=e.args[0] if e.args else ast.Constant(value=None), ctx=ast.Load())
                if isinstance(e, ast.IfExp):
                    return stored_origin(e.body, depth, seen) or stored_origin(e.orelse, depth, seen)
                return None
            for y in own_nodes(m.node):
                if not (isinstance(y, ast.Yield) and y.value is not None):
                    continue
                v = y.value
                if isinstance(v, (ast.Dict, ast.DictComp, ast.Call, ast.Tuple, ast.Constant)):
                    continue
                n += 1
                o = stored_origin(v)
                bad = o is not None and isinstance(o, ast.Subscript)
                out.append(inst("ROW-NOT-RETAINED", VIOLATION if bad else HOLDS, m, f"{m.short}[yield {unparse(v)[:30]}]",
                                "the yielded row is not an element of the node's own state" if not bad else
                                f"`yield {unparse(v)}` hands out `{unparse(o)[:60]}`, an object the node keeps: consumers complete rows in place "
                                f"(`first_value.update(sources)`), so what one step of the search wrote into it - the bindings of OTHER variables - is still in it "
                                f"when it is handed out again, and overwrites the right bindings (rows with wrong assignments, missing and duplicate rows)",
                                line=y.lineno))
    if n < 20:
        raise AnalysisError(f"only {n} row yields found in the engine's generators")
    return out

