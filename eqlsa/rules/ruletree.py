"""C12 TREE-SURGERY: attaching a branch rewires the condition tree in place; evaluation follows left/right."""
from __future__ import annotations

import ast
from typing import Dict, List, Optional, Set, Tuple

from ..db import ProgramDB, FuncInfo, ClassInfo, AnalysisError, unparse, own_nodes, dotted
from ..facts import own_calls, call_attr, resolve_call_target, bind_args, local_defs, fn_params
from ..framework import inst, HOLDS, VIOLATION, UNDECIDED, INFO, Instance


def _selector_constructions(db: ProgramDB, fn: FuncInfo) -> List[Tuple[str, ast.Call, ClassInfo]]:
    cs = db.cls("ConclusionSelector")
    out = []
    for n in own_nodes(fn.node):
        if isinstance(n, ast.Assign) and isinstance(n.value, ast.Call) and len(n.targets) == 1 \
                and isinstance(n.targets[0], ast.Name):
            t = resolve_call_target(db, fn, n.value)
            if isinstance(t, ClassInfo) and t.is_subclass_of(cs):
                out.append((n.targets[0].id, n.value, t))
    return out


def rule_tree_surgery(db: ProgramDB) -> List[Instance]:
    out = []
    cs = db.cls("ConclusionSelector")
    bo = db.cls("BinaryOperator")
    selector_classes = [c for c in cs.all_subclasses(include_self=False)]
    for fn in sorted(db.all_functions(), key=lambda f: f.qualname):
        cons = _selector_constructions(db, fn)
        if not cons:
            continue
        wnames = {w for w, _, _ in cons}
        if len(wnames) != 1:
            out.append(inst("TREE-SURGERY", UNDECIDED, fn, fn.short, f"selector stored in several names {sorted(wnames)}"))
            continue
        W = wnames.pop()
        key = fn.short
        # the wrapped node: first operand of the selector construction
        node_exprs = set()
        for _, call, cls in cons:
            amap = bind_args(cls.init_params(), call)
            if "left" in amap:
                node_exprs.add(unparse(amap["left"]))
        # (1) parent read, (4) attach
        attach = [n for n in own_nodes(fn.node) if isinstance(n, ast.Assign) and any(
            isinstance(t, ast.Attribute) and t.attr == "_parent_" and isinstance(t.value, ast.Name) and t.value.id == W
            for t in n.targets)]
        if len(attach) != 1 or not isinstance(attach[0].value, ast.Name):
            out.append(inst("TREE-SURGERY", VIOLATION, fn, f"{key}[attach]",
                            f"the new selector `{W}` is not attached under the previous parent of the wrapped node "
                            f"(expected one `{W}._parent_ = <saved parent>`)"))
            continue
        P = attach[0].value.id
        defs = local_defs(fn).get(P, [])
        reads_parent = [d for d in defs if isinstance(d, ast.Attribute) and d.attr == "_parent_"]
        if not reads_parent:
            out.append(inst("TREE-SURGERY", VIOLATION, fn, f"{key}[saved parent]",
                            f"`{P}` is not read from `<node>._parent_` before the node is detached"))
            continue
        node_name = unparse(reads_parent[0].value)
        # (2) detach
        detach = [n for n in own_nodes(fn.node) if isinstance(n, ast.Assign) and any(
            isinstance(t, ast.Attribute) and t.attr == "_parent_" and unparse(t.value) == node_name for t in n.targets)
            and isinstance(n.value, ast.Constant) and n.value.value is None]
        # (5) re-link of the operand slot
        relinks: Dict[str, ast.Assign] = {}
        for n in own_nodes(fn.node):
            if isinstance(n, ast.Assign):
                for t in n.targets:
                    if isinstance(t, ast.Attribute) and t.attr in ("left", "right") and isinstance(t.value, ast.Name) \
                            and t.value.id == P and isinstance(n.value, ast.Name) and n.value.id == W:
                        relinks[t.attr] = n
        if not relinks:
            out.append(inst("TREE-SURGERY", VIOLATION, fn, f"{key}[re-link operand slot]",
                            f"`{W}` is attached under `{P}` in the graph, but when `{P}` is a binary operator its "
                            f"`left`/`right` field still holds the wrapped node: evaluation follows left/right, so the "
                            f"new branch is ignored (e.g. a refinement under an alternative or under another refinement)",
                            line=attach[0].lineno))
            continue
        # guarded by isinstance(P, BinaryOperator)?
        guarded = True
        for slot, a in relinks.items():
            g = _enclosing_tests(db, a)
            if not any("isinstance" in unparse(t) and P in unparse(t) for t in g):
                guarded = False
        if set(relinks) == {"left", "right"}:
            # decided by running the re-link statements for every kind of parent operator and either position of the wrapped
            # node: exactly the slot that held it is re-pointed
            from ..boolexpr import eval_bool
            relink_ids = {id(a): slot for slot, a in relinks.items()}
            node_aliases = {node_name} | {n for n, ds in local_defs(fn).items() if any(isinstance(d, ast.AST) and unparse(d) == node_name for d in ds)}
            node_aliases |= {unparse(d) for d in local_defs(fn).get(node_name, []) if isinstance(d, ast.AST)}
            parents = sorted([c for c in bo.all_subclasses() if "ABC" not in c.external_bases], key=lambda c: c.qualname)

            def run(stmts, env, done):
                for st in stmts:
                    if id(st) in relink_ids:
                        done.append(relink_ids[id(st)])
                    elif isinstance(st, ast.If):
                        run(st.body if eval_bool(st.test, env["atom"], env["vals"]) else st.orelse, env, done)
                    elif isinstance(st, (ast.For, ast.While, ast.With, ast.Try)):
                        if any(id(x) in relink_ids for x in ast.walk(st)):
                            raise AnalysisError("re-link inside a loop / with / try")
                return done
            bad = None
            n_cases = 0
            try:
                for pc in parents:
                    for cur_left in (True, False):
                        def atom(e, pc=pc):
                            if isinstance(e, ast.Call) and dotted(e.func) == "isinstance" and len(e.args) == 2 and unparse(e.args[0]) == P:
                                return "ISA:" + unparse(e.args[1])
                            if isinstance(e, ast.Compare) and len(e.ops) == 1 and isinstance(e.ops[0], (ast.Is, ast.IsNot, ast.Eq, ast.NotEq)):
                                l, r = unparse(e.left), unparse(e.comparators[0])
                                for a_, b_ in ((l, r), (r, l)):
                                    if a_ in (f"{P}.left", f"{P}.right") and b_ in node_aliases:
                                        neg = "!" if isinstance(e.ops[0], (ast.IsNot, ast.NotEq)) else ""
                                        return neg + ("CUR_LEFT" if a_.endswith(".left") else "CUR_RIGHT")
                            return None
                        vals = {"CUR_LEFT": cur_left, "CUR_RIGHT": not cur_left}

                        class _V(dict):
                            def __missing__(self, k, pc=pc):
                                if k.startswith("ISA:"):
                                    names = [x.strip() for x in k[4:].strip("()").split(",")]
                                    return any(pc.name == nm.split(".")[-1] or pc.is_subclass_of(nm.split(".")[-1]) for nm in names if nm)
                                raise KeyError(k)
                        done = run(fn.node.body, {"atom": atom, "vals": _V(vals)}, [])
                        n_cases += 1
                        want = ["left"] if cur_left else ["right"]
                        if done != want and bad is None:
                            bad = (pc.name, "left" if cur_left else "right", done)
            except (AnalysisError, KeyError) as e:
                out.append(inst("TREE-SURGERY", UNDECIDED, fn, f"{key}[re-link operand slot]", f"the re-link statements could not be evaluated: {e}", line=attach[0].lineno))
                continue
            ok = bad is None and n_cases > 0
            out.append(inst("TREE-SURGERY", HOLDS if ok else VIOLATION, fn, f"{key}[re-link operand slot]",
                            f"for each of {len(parents)} kinds of parent operator and either position, exactly the operand slot of `{P}` that held the wrapped "
                            f"node is re-pointed to `{W}`" if ok else
                            (f"when the wrapped node is the {bad[1]} operand of a {bad[0]}, the slot(s) re-pointed to `{W}` are {bad[2] or 'none'}: the "
                             f"operand that held the node keeps pointing at it (the refinement is never consulted) and the other operand - an alternative "
                             f"chained to the node before it was refined - is overwritten" if bad else "no parent operator class found"),
                            line=attach[0].lineno))
            continue
        slot = next(iter(relinks))
        other = "left" if slot == "right" else "right"
        # the other slot must be excluded by re-targeting the node to its parent selector
        excluded, missing = _left_case_excluded(db, fn, node_name, selector_classes, other)
        ok = guarded and not missing
        out.append(inst("TREE-SURGERY", HOLDS if ok else VIOLATION, fn, f"{key}[re-link operand slot]",
                        (f"`{P}.{slot} = {W}`; the wrapped node is never the `{other}` operand of a selector here: "
                         f"re-targeted to the parent for {excluded}") if ok else
                        (f"only `{P}.{slot}` is re-pointed; the wrapped node can be the `{other}` operand of "
                         f"{missing} (re-targeting to the parent selector must be repeated until no selector parent "
                         f"matches: after one step the node can be the `{other}` operand of the next selector up, e.g. "
                         f"the third of three sibling alternatives), whose `{other}` field would keep pointing at the old "
                         f"node while its `{slot}` branch is overwritten"),
                        line=attach[0].lineno))
    return out


def _enclosing_tests(db: ProgramDB, node: ast.AST) -> List[ast.AST]:
    out = []
    p = db.parent(node)
    while p is not None and not isinstance(p, (ast.FunctionDef, ast.AsyncFunctionDef)):
        if isinstance(p, ast.If):
            out.append(p.test)
        p = db.parent(p)
    return out


def _left_case_excluded(db, fn: FuncInfo, node_name: str, selector_classes: List[ClassInfo], other: str):
    """Which selector classes are covered by a *closed* re-targeting
        while …: if isinstance(node._parent_, (S,...)) [and node is node._parent_.<other>]: node = node._parent_ … else: break
    A one-shot `if` is not enough: after one step the node (now a selector) can itself be the `<other>` operand of an
    enclosing selector of the same family."""
    covered: Set[str] = set()
    loops = [n for n in own_nodes(fn.node) if isinstance(n, ast.While)]
    in_loop = {id(x) for l in loops for x in ast.walk(l)}
    for n in own_nodes(fn.node):
        if isinstance(n, ast.If) and id(n) in in_loop:
            cur = n
            while True:
                body_retargets = any(isinstance(s, ast.Assign) and unparse(s.targets[0]) == node_name and
                                     unparse(s.value) == f"{node_name}._parent_" for s in cur.body)
                if body_retargets:
                    for c in ast.walk(cur.test):
                        if isinstance(c, ast.Call) and dotted(c.func) == "isinstance" and len(c.args) == 2 \
                                and unparse(c.args[0]) == f"{node_name}._parent_":
                            k = c.args[1]
                            for e in (k.elts if isinstance(k, ast.Tuple) else [k]):
                                r = db.resolve_dotted(fn.module, e)
                                if isinstance(r, ClassInfo):
                                    for s in r.all_subclasses():
                                        covered.add(s.name)
                if len(cur.orelse) == 1 and isinstance(cur.orelse[0], ast.If):
                    cur = cur.orelse[0]
                else:
                    break
    missing = sorted(c.name for c in selector_classes if c.name not in covered)
    return sorted(covered), missing


# ---------------------------------------------------------------------------------- SELECT-PER-ROW
SELECT_VOCAB = {"ExceptIf": "refinement", "Alternative": "alternative"}


def rule_select_per_row(db: ProgramDB) -> List[Instance]:
    """A conclusion selector exposes, while a row is handed on, the conclusions selected FOR THAT ROW (its parent applies
    whatever is in `_conclusion_` when it receives the row).  So whatever a selector puts into `_conclusion_` before a yield
    is withdrawn again (`_conclusion_.clear()`) before the next row is produced: on every path from a selection through a
    yield, a clear comes before the next iteration of any loop and before the end of the generator."""
    from ..cfg import CFG
    out = []
    cs = db.cls("ConclusionSelector")
    n = 0
    for c in sorted(cs.all_subclasses(), key=lambda k: k.qualname):
        m = c.methods.get("_evaluate__")
        if m is None or not m.is_generator:
            continue
        cfg = CFG(m)

        def calls_in(nd):
            return [x for x in ast.walk(nd.ast)] if nd.ast is not None and nd.kind in ("stmt", "return") else []

        def is_select(nd) -> bool:
            for x in calls_in(nd):
                if isinstance(x, ast.Call) and isinstance(x.func, ast.Attribute):
                    if x.func.attr == "update_conclusion" and isinstance(x.func.value, ast.Name) and x.func.value.id == "self":
                        return True
                    if x.func.attr in ("update", "add") and unparse(x.func.value) == "self._conclusion_":
                        return True
            return False

        def is_clear(nd) -> bool:
            return any(isinstance(x, ast.Call) and isinstance(x.func, ast.Attribute) and x.func.attr == "clear"
                       and unparse(x.func.value) == "self._conclusion_" for x in calls_in(nd))
        selects = [nd for nd in cfg.nodes if is_select(nd)]
        if not selects:
            continue
        for s in selects:
            n += 1
            # yields reachable from the selection with the selection still standing
            reach = _reach(cfg, s.id, is_clear)
            bad = None
            for yid in sorted(reach):
                y = cfg.nodes[yid]
                if not y.has_yield:
                    continue
                after = _reach(cfg, yid, is_clear)
                for t in sorted(after):
                    tn = cfg.nodes[t]
                    if t != yid and (tn.kind == "for" or t == cfg.exit):
                        bad = (y, tn)
                        break
                if bad:
                    break
            key = f"{m.short}[{s.src()[:50]}]"
            vocab = SELECT_VOCAB.get(c.name)
            if bad is None:
                out.append(inst("SELECT-PER-ROW", HOLDS, m, key, "what is selected for a row is withdrawn before the next row is produced", line=s.lineno))
            elif vocab is None:
                out.append(inst("SELECT-PER-ROW", INFO, m, key,
                                f"not withdrawn after `{bad[0].src()[:40]}`; {c.name} is not built by refinement()/alternative() (the "
                                f"vocabulary of the property), observation only", line=s.lineno))
            else:
                out.append(inst("SELECT-PER-ROW", VIOLATION, m, key,
                                f"the conclusions selected here are still in `_conclusion_` when the generator goes on after "
                                f"`{bad[0].src()[:40]}` (line {bad[0].lineno}) to "
                                f"{'the next iteration of the loop at line ' + str(bad[1].lineno) if bad[1].kind == 'for' else 'its end'}: the next row of "
                                f"this {vocab} is handed on with the conclusions selected for an earlier row", line=s.lineno))
    if n == 0:
        raise AnalysisError("no conclusion selection statement found in ConclusionSelector._evaluate__ implementations")
    return out


def _reach(cfg, start: int, blocked) -> Set[int]:
    seen = {start}
    stack = [start]
    while stack:
        x = stack.pop()
        for e in cfg.succ[x]:
            if e.kind != "n" or e.dst in seen:
                continue
            if blocked(cfg.nodes[e.dst]):
                continue
            seen.add(e.dst)
            stack.append(e.dst)
    return seen


# ---------------------------------------------------------------------------------- SELECT-EVERY-ROW
def rule_select_every_row(db: ProgramDB) -> List[Instance]:
    """The other half of SELECT-PER-ROW: what is withdrawn after every row has to be selected FOR every row.  A selection
    (`self._conclusion_.update(…)`, `self.update_conclusion(…)`) inside a loop over rows that is guarded by a local carried from one
    iteration to the next (set before the loop, changed in it: `if not right_yielded:`) runs for the first row only, while the clear after
    the yield runs for each: a refinement that fires for several elements of one parent (a flattened collection the base does not
    bind) draws its conclusion for the first of them and none for the others."""
    from ..boolexpr import guards_of
    out = []
    cs = db.cls("ConclusionSelector")
    n = 0
    for c in sorted(cs.all_subclasses(), key=lambda k: k.qualname):
        m = c.methods.get("_evaluate__")
        if m is None or not m.is_generator or m.cls is not c:
            continue
        for loop in [l for l in own_nodes(m.node) if isinstance(l, ast.For)]:
            inner_loops = [l for l in ast.walk(loop) if isinstance(l, ast.For) and l is not loop]
            assigned_in = {t.id for a in ast.walk(loop) if isinstance(a, (ast.Assign, ast.AugAssign)) for t in (a.targets if isinstance(a, ast.Assign) else [a.target])
                           if isinstance(t, ast.Name)}
            before = {t.id for a in own_nodes(m.node) if isinstance(a, ast.Assign) and not any(a is x for x in ast.walk(loop)) and a.lineno < loop.lineno
                      for t in a.targets if isinstance(t, ast.Name)}
            # a local of an enclosing loop that is set before THIS loop and changed in it is carried as well
            carried = assigned_in & before
            for x in ast.walk(loop):
                if not (isinstance(x, ast.Call) and isinstance(x.func, ast.Attribute)):
                    continue
                sel = (x.func.attr == "update_conclusion" and unparse(x.func.value) == "self") or (x.func.attr in ("update", "add") and unparse(x.func.value) == "self._conclusion_")
                if not sel or any(x is y for l in inner_loops for y in ast.walk(l)):
                    continue
                n += 1
                g = guards_of(x, loop.body) or []
                by = sorted({nm.id for t, _p in g for nm in ast.walk(t) if isinstance(nm, ast.Name) and nm.id in carried})
                out.append(inst("SELECT-EVERY-ROW", VIOLATION if by else HOLDS, m, f"{m.short}[{unparse(x)[:50]}]",
                                f"`{unparse(x)[:60]}` runs only while `{', '.join(by)}` (set before the loop, changed in it) has its initial value, i.e. for the first row of "
                                f"the loop; the conclusions are withdrawn after every row: the second element of one parent for which the refinement fires gets no conclusion"
                                if by else "the selection does not depend on a local carried from row to row", line=x.lineno))
    if n == 0:
        raise AnalysisError("no conclusion selection inside a row loop of a selector found")
    return out


# ---------------------------------------------------------------------------------- CONCLUDED-PER-CONCLUSION
def rule_concluded_per_conclusion(db: ProgramDB) -> List[Instance]:
    """What a selector remembers as 'already concluded' is remembered per conclusion: the store it consults and extends
    in update_conclusion is selected by the conclusions at hand, so that two branches concluding on the same variables (the
    same item, another constant) do not shadow each other."""
    from .binding import derived_closure, names_in
    out = []
    m = db.method("ConclusionSelector", "update_conclusion")
    cp = "conclusions" if "conclusions" in m.params else (m.positional_params[2] if len(m.positional_params) > 2 else None)
    if cp is None:
        raise AnalysisError("ConclusionSelector.update_conclusion: the conclusions parameter was not found")
    derived = derived_closure(m, {cp})
    # names bound by comprehensions / loops over the conclusions also derive from them
    uses = [c for c in own_calls(m) if call_attr(c) in ("check", "add") and isinstance(c.func, ast.Attribute)]
    defs0 = local_defs(m)

    def is_drawn_store(e: ast.AST) -> bool:
        """the receiver is (derived from) the selector's record of drawn conclusions: the field, or a local defined from it"""
        if any(isinstance(x, ast.Attribute) and x.attr == "concluded_before" for x in ast.walk(e)):
            return True
        return any(isinstance(d, ast.AST) and any(isinstance(x, ast.Attribute) and x.attr == "concluded_before" for x in ast.walk(d))
                   for nm in ast.walk(e) if isinstance(nm, ast.Name) for d in defs0.get(nm.id, []))
    uses = [c for c in uses if is_drawn_store(c.func.value)]
    if not uses:
        raise AnalysisError("ConclusionSelector.update_conclusion: no consultation of the 'concluded before' store found")
    defs = local_defs(m)
    for c in uses:
        recv = c.func.value
        expr_names = names_in(recv)
        # follow one level of local definition (store = self.concluded_before[...].setdefault(<key from conclusions>, …))
        for nm in list(expr_names):
            for d in defs.get(nm, []):
                if isinstance(d, ast.AST):
                    expr_names |= names_in(d)
        ok = bool(expr_names & derived) or cp in expr_names
        partial = None
        key_exprs = []
        if ok:
            # ... and by each conclusion as a whole: a key built from a part of it (the variable it is about, without the value)
            # is shared by two conclusions that differ in the rest
            key_exprs = [recv] + [d for nm in names_in(recv) for d in defs.get(nm, []) if isinstance(d, ast.AST)]
            concl_fields = {f.name for f in db.cls("Conclusion").own_fields if not f.name.startswith("_")} if db.cls("Conclusion", required=False) else set()
            for ke in key_exprs:
                for comp in [x for x in ast.walk(ke) if isinstance(x, (ast.GeneratorExp, ast.ListComp, ast.SetComp))]:
                    g = comp.generators[0]
                    if not (isinstance(g.target, ast.Name) and names_in(g.iter) & (derived | {cp})):
                        continue
                    lv = g.target.id
                    whole = False
                    used_fields = set()
                    parents = {id(ch): par for par in ast.walk(comp.elt) for ch in ast.iter_child_nodes(par)}
                    for nm in [x for x in ast.walk(comp.elt) if isinstance(x, ast.Name) and x.id == lv]:
                        par = parents.get(id(nm))
                        if isinstance(par, ast.Attribute) and par.value is nm and par.attr in ("_id_", "_node_"):
                            whole = True          # the identifier of the conclusion object itself
                        elif isinstance(par, ast.Attribute) and par.value is nm:
                            used_fields.add(par.attr)
                        else:
                            whole = True
                    if not whole and used_fields and concl_fields and not concl_fields <= used_fields:
                        partial = (comp, sorted(concl_fields - used_fields))
        if ok:
            by_container = [x for ke in key_exprs for x in ast.walk(ke) if isinstance(x, ast.Call) and isinstance(x.func, ast.Name) and x.func.id == "id"
                            and x.args and isinstance(x.args[0], ast.Name) and x.args[0].id == cp]
            if by_container:
                out.append(inst("CONCLUDED-PER-CONCLUSION", VIOLATION, m, f"ConclusionSelector.update_conclusion[{unparse(c)[:50]}]",
                                f"the store is selected by `{unparse(by_container[0])}`, the identity of the set the operand hands in, not by the conclusions in it: an operand "
                                f"that is a selector itself hands in its ONE set object whose contents change from row to row, so what a refinement concluded for an item "
                                f"(stored as {{item}}) counts as the base's conclusions having been drawn for that item", line=c.lineno))
                continue
        if partial is not None:
            out.append(inst("CONCLUDED-PER-CONCLUSION", VIOLATION, m, f"ConclusionSelector.update_conclusion[{unparse(c)[:50]}]",
                            f"the store is selected by `{unparse(partial[0].elt)}` of each conclusion, which leaves out its {', '.join(partial[1])}: two "
                            f"conclusions about the same variable with another value (Label(item, 'K1') in the base, Label(item, 'K2') in the "
                            f"alternative) share one store, and the second counts as already drawn", line=c.lineno))
            continue
        out.append(inst("CONCLUDED-PER-CONCLUSION", HOLDS if ok else VIOLATION, m, f"ConclusionSelector.update_conclusion[{unparse(c)[:50]}]",
                        f"the store is selected by `{cp}`" if ok else
                        f"`{unparse(recv)}` does not depend on `{cp}`: whether a conclusion was drawn before is looked up by the binding of "
                        f"its variables only, so after the base concluded Label(item, 'K1') for an item the alternative's "
                        f"Label(item, 'K2') counts as already drawn for that item (and the other way round)", line=c.lineno))
    return out


# ---------------------------------------------------------------------------------- RULE-ON-ENTER
def rule_rule_on_enter(db: ProgramDB) -> List[Instance]:
    """A query is evaluated as a rule (its selected variables take their values from the conclusions, not from the instances
    that exist already) when its descriptor's `rule_mode` flag is set.  Conclusions can be attached to a query in two ways:
    by writing it inside a rule block (the flag is set when the descriptor is built) and by opening a rule block ON it
    afterwards (`with rule_mode(query):`).  Both ways have to set the flag, otherwise a match for which no conclusion applies
    emits whatever instances of the selected type exist."""
    from ..boolexpr import guards_of
    out = []
    qod = db.cls("QueryObjectDescriptor")
    readers = [m for c in [qod] + qod.all_subclasses() for m in c.methods.values() if m.cls is c and any(
        isinstance(x, ast.Attribute) and x.attr == "rule_mode" and isinstance(x.ctx, ast.Load) for x in own_nodes(m.node))]
    if not readers:
        raise AnalysisError("no reader of QueryObjectDescriptor.rule_mode found")
    # (1) at construction
    pi = qod.methods.get("__post_init__")
    ok1 = pi is not None and any(isinstance(a, ast.Assign) and any(isinstance(t, ast.Attribute) and t.attr == "rule_mode" for t in a.targets)
                                 and isinstance(a.value, ast.Constant) and a.value.value is True for a in own_nodes(pi.node))
    out.append(inst("RULE-ON-ENTER", HOLDS if ok1 else VIOLATION, qod, "QueryObjectDescriptor.__post_init__[written inside a rule block]",
                    "a descriptor built in rule mode is flagged as a rule" if ok1 else "a descriptor built in rule mode is not flagged as a rule"))
    # (2) when a block is opened on the query: the flag is set on the way rule_mode(query) takes (symbolic_mode / __enter__),
    # and only for a RULE block - a query-mode block opened on a query (implicit binding of predicates) leaves it a query
    se = db.cls("SymbolicExpression")
    sites = []
    for fn in [se.methods.get("__enter__"), db.fn("symbolic:symbolic_mode", required=False), db.fn("symbolic:rule_mode", required=False)]:
        if fn is None:
            continue
        for a_ in own_nodes(fn.node):
            if isinstance(a_, ast.Assign) and any(isinstance(t, ast.Attribute) and t.attr == "rule_mode" for t in a_.targets) \
                    and isinstance(a_.value, ast.Constant) and a_.value.value is True:
                g = guards_of(a_, fn.node.body) or []
                rule_guard = any(pol and "EQLMode.Rule" in unparse(t) for t, pol in g)
                sites.append((fn, a_, rule_guard))
    ok2 = any(rg for _, _, rg in sites)
    anchor = sites[0][0] if sites else se
    out.append(inst("RULE-ON-ENTER", HOLDS if ok2 else VIOLATION, anchor, "symbolic_mode / __enter__[a rule block opened on the query]",
                    "opening a rule block on a query flags its descriptor as a rule" if ok2 else
                    "`with rule_mode(query):` does not flag the query's descriptor as a rule: for an(entity(v := let(type_=T), cond)) followed by "
                    "rule_mode(query) the selected variable is not inferred, and a match without an applicable conclusion (a stopping refinement) "
                    "emits every T that exists"))
    for fn, a_, rg in sites:
        if not rg:
            out.append(inst("RULE-ON-ENTER", VIOLATION, fn, f"{fn.short}[{unparse(a_)[:40]}: only for rule blocks]",
                            f"`{unparse(a_)}` flags the query as a rule whatever the mode of the block: `with symbolic_mode(query):` (a query-mode "
                            f"block, used to bind predicates implicitly) turns a plain query into a rule, and it returns nothing from then on",
                            line=a_.lineno))
        else:
            out.append(inst("RULE-ON-ENTER", HOLDS, fn, f"{fn.short}[{unparse(a_)[:40]}: only for rule blocks]",
                            "set under a test for rule mode only", line=a_.lineno))
    return out


# ---------------------------------------------------------------------------------- ALT-LEFT-TRUTH
def rule_alt_left_truth(db: ProgramDB) -> List[Instance]:
    """An alternative decides which branch's conclusion applies to a row from the truth flag of its left side (the branches
    before it).  The else-if it extends has a path on which the left side yields no row at all and the right side runs on the
    incoming binding: on that path the left flag is whatever an earlier row left in it, so it has to be set to 'false' before
    the first row of the right side is handed on - otherwise the alternative's matches get the conclusion of the base."""
    from ..cfg import CFG
    out = []
    alt = db.cls("Alternative")
    am = alt.methods.get("_evaluate__")
    if am is None:
        raise AnalysisError("Alternative._evaluate__ not found")
    reads_left_flag = any(isinstance(x, ast.Attribute) and x.attr == "_is_false_" and unparse(x.value) == "self.left" for x in own_nodes(am.node))
    if not reads_left_flag:
        out.append(inst("ALT-LEFT-TRUTH", INFO, am, "Alternative._evaluate__", "does not decide by the left side's truth flag"))
        return out
    ei = db.method("ElseIf", "_evaluate__", inherited=False)
    cfg = CFG(ei)
    flags = set()
    for l in [n for n in own_nodes(ei.node) if isinstance(n, ast.For)]:
        for s in l.body[:2]:
            if isinstance(s, ast.Assign) and isinstance(s.value, ast.Constant) and s.value.value is True and isinstance(s.targets[0], ast.Name):
                flags.add(s.targets[0].id)
    tests = [nd for nd in cfg.nodes if nd.kind == "test" and isinstance(nd.stmt, ast.If) and isinstance(nd.stmt.test, ast.UnaryOp)
             and isinstance(nd.stmt.test.op, ast.Not) and isinstance(nd.stmt.test.operand, ast.Name) and nd.stmt.test.operand.id in flags]
    if not tests:
        out.append(inst("ALT-LEFT-TRUTH", HOLDS, ei, "ElseIf._evaluate__[left side yielded nothing]", "no separate path for a left side without rows"))
        return out
    for t in tests:
        def sets_left_false(nd):
            a = nd.ast
            return nd.kind == "stmt" and isinstance(a, ast.Assign) and any(unparse(x) == "self.left._is_false_" for x in a.targets) \
                and isinstance(a.value, ast.Constant) and a.value.value is True
        bad = None
        for e in cfg.succ[t.id]:
            if e.kind == "n" and e.label == "T":
                first = cfg.nodes[e.dst]
                if sets_left_false(first):
                    continue
                p = cfg.find_path(first.id, lambda nd: nd.has_yield, kinds=("n",), blocked=sets_left_false)
                if p is not None or first.has_yield:
                    bad = [e] + (p or [])
        out.append(inst("ALT-LEFT-TRUTH", VIOLATION if bad else HOLDS, ei, "ElseIf._evaluate__[left side yielded nothing]",
                        "rows of the right side are handed on with the left side's flag still holding what an earlier row left in it: an "
                        "alternative whose base matches nothing at all applies the BASE's conclusion to its own matches (" + " ".join(cfg.describe_path(bad)[-2:]) + ")" if bad else
                        "the left side's flag is set to false before the right side's rows are handed on", line=t.lineno))
    return out


# ---------------------------------------------------------------------------------- CONCLUSION-VARS-BOUND
def rule_conclusion_vars_bound(db: ProgramDB) -> List[Instance]:
    """A branch can fire for a row that does not bind every variable its conclusions mention (the base failed at a condition
    before the one that binds it).  A conclusion applied to such a row takes the first value of the variable; each
    assignment has to get its conclusion, so the row handed to the conclusions comes out of a loop that binds the
    variables the conclusions mention and the row lacks."""
    from ..evalsites import site_model
    from .binding import binding_params
    out = []
    model = site_model(db)
    qod = db.cls("QueryObjectDescriptor")
    n = 0
    for s in model.sites:
        if s.fn.cls is None or not (s.fn.cls is qod or s.fn.cls.is_subclass_of(qod)):
            continue
        if not (s.origins and all("_conclusion_" in o for o in s.origins)):
            continue
        n += 1
        fn = s.fn
        ok = False
        why = ""
        node = s.call
        # enclosing for loops, innermost last
        loops = [l for l in own_nodes(fn.node) if isinstance(l, ast.For) and any(x is node for b in l.body for x in ast.walk(b))]
        for l in loops:
            it = l.iter
            if not (isinstance(it, ast.Call) and isinstance(it.func, ast.Attribute) and isinstance(it.func.value, ast.Name) and it.func.value.id == "self"):
                continue
            helper = fn.cls.lookup(it.func.attr)
            if helper is None or not helper.is_generator or not binding_params(helper):
                continue
            # one of the arguments is computed from the conclusions' variables
            for a in it.args:
                srcs = [a]
                if isinstance(a, ast.Call) and isinstance(a.func, ast.Attribute) and isinstance(a.func.value, ast.Name) and a.func.value.id == "self":
                    h2 = fn.cls.lookup(a.func.attr)
                    if h2 is not None:
                        srcs.append(h2.node)
                if any(isinstance(x, ast.Attribute) and x.attr == "_conclusion_" for s_ in srcs for x in ast.walk(s_)) and \
                        any(isinstance(x, ast.Attribute) and x.attr in ("_unique_variables_", "_all_variable_instances_") for s_ in srcs for x in ast.walk(s_)):
                    # the row given to the conclusion is the loop's row
                    tn = {x.id for x in ast.walk(l.target) if isinstance(x, ast.Name)}
                    if s.binding is not None and {x.id for x in ast.walk(s.binding) if isinstance(x, ast.Name)} & tn:
                        ok = True
                        why = f"`for {unparse(l.target)} in {unparse(it)[:70]}` binds them first"
        out.append(inst("CONCLUSION-VARS-BOUND", HOLDS if ok else VIOLATION, fn, f"{fn.short}[{unparse(s.call)[:50]}: variables of the conclusion are bound]",
                        why if ok else
                        f"`{unparse(s.call)}` applies the conclusion to the row as the branch yielded it: a variable the conclusion mentions and the row does "
                        f"not bind (the base failed before binding it) takes its first value only - Add(v, Pair(x, y, 'alt')) under alternative(y.m != 2) "
                        f"of a base y.m < 1, x.a > y.k misses ('i1', 's0', 'alt')", line=s.line))
    if n == 0:
        raise AnalysisError("QueryObjectDescriptor: the place where conclusions are applied to a row was not found")
    return out


def _inline_locals(e: ast.AST, defs, depth: int = 0) -> ast.AST:
    """the expression with every local that is assigned exactly once replaced by what it was assigned"""
    import copy as _copy

    class T(ast.NodeTransformer):
        def visit_Name(self, n):
            ds = defs.get(n.id, [])
            if isinstance(n.ctx, ast.Load) and len(ds) == 1 and isinstance(ds[0], ast.AST) and depth < 3:
                return _inline_locals(_copy.deepcopy(ds[0]), defs, depth + 1)
            return n
    return T().visit(_copy.deepcopy(e))


def is_eval_name_(n: str) -> bool:
    return n.startswith("_evaluate")


def _inline_predicate_calls(db: ProgramDB, fn: FuncInfo, e: ast.AST, depth: int = 0) -> ast.AST:
    """the expression with every call of a method of the same class that only computes a boolean (single-assignment locals and one `return`)
    replaced by what it returns, the arguments substituted; `bool(x)` is `x`.  A test moved into a named helper decides the same thing."""
    import copy as _copy

    class T(ast.NodeTransformer):
        def visit_Call(self, c):
            self.generic_visit(c)
            if isinstance(c.func, ast.Name) and c.func.id == "bool" and len(c.args) == 1 and not c.keywords:
                return c.args[0]
            if not isinstance(c.func, ast.Attribute) or fn.cls is None or depth >= 2:
                return c
            if isinstance(c.func.value, ast.Name) and c.func.value.id in ("self", "cls"):
                t = fn.cls.lookup(c.func.attr)
            else:
                # a helper of another expression class (`self._child_.<helper>(…)`): the one class that defines a method of that name
                owners_ = [k.methods[c.func.attr] for k in db.classes.values() if c.func.attr in k.methods and k.methods[c.func.attr].cls is k]
                t = owners_[0] if len(owners_) == 1 and c.func.attr.startswith("_") and not is_eval_name_(c.func.attr) else None
            if t is None:
                return c
            body = [st for st in t.node.body if not (isinstance(st, ast.Expr) and isinstance(st.value, ast.Constant))]
            if not body or not isinstance(body[-1], ast.Return) or body[-1].value is None or not all(
                    isinstance(st, ast.Assign) and len(st.targets) == 1 and isinstance(st.targets[0], ast.Name) for st in body[:-1]):
                return c
            ldefs = {}
            for st in body[:-1]:
                ldefs.setdefault(st.targets[0].id, []).append(st.value)
            ret = _inline_locals(body[-1].value, ldefs)
            amap = bind_args([pk for pk in fn_params(t) if pk[0] not in ("self", "cls")], c)

            class S(ast.NodeTransformer):
                def visit_Name(self, n):
                    if isinstance(n.ctx, ast.Load) and n.id in amap:
                        return _copy.deepcopy(amap[n.id])
                    return n
            return _inline_predicate_calls(db, t, S().visit(_copy.deepcopy(ret)), depth + 1)
    return T().visit(_copy.deepcopy(e))


# ---------------------------------------------------------------------------------- CONCLUSION-VARS-BOUND (which variables)
def rule_conclusion_vars_which(db: ProgramDB) -> List[Instance]:
    """Which of the things a conclusion mentions are bound before it is drawn: decided by evaluating the guards of the statement
    that collects them, for each kind of thing - a variable with a domain, a variable declared without one (it ranges over the
    registry and has no domain before its first evaluation), a flattened expression (one row per element): collected; something
    the row binds already, an inferred variable, a literal: not."""
    from ..boolexpr import guards_of, eval_bool
    out = []
    qod = db.cls("QueryObjectDescriptor")
    helpers = [m for m in qod.methods.values() if m.cls is qod and any(isinstance(x, ast.Attribute) and x.attr == "_conclusion_" for x in own_nodes(m.node))
               and any(isinstance(c, ast.Call) and call_attr(c) == "append" for c in own_nodes(m.node))
               and any(isinstance(x, ast.Attribute) and x.attr in ("_unique_variables_", "_all_variable_instances_") for x in own_nodes(m.node))]
    if len(helpers) != 1:
        raise AnalysisError(f"QueryObjectDescriptor: expected one helper that collects the unbound variables of the conclusions, found {len(helpers)}")
    m = helpers[0]
    appends = [c for c in own_nodes(m.node) if isinstance(c, ast.Call) and call_attr(c) == "append" and c.args and isinstance(c.args[0], ast.Name)]
    vn = appends[0].args[0].id
    bp = next((p for p in m.positional_params if p not in ("self",)), "binding")

    def atom(e):
        u = unparse(e)
        if isinstance(e, ast.Call) and dotted(e.func) == "isinstance" and len(e.args) == 2 and unparse(e.args[0]) == vn:
            names = [unparse(x).split(".")[-1] for x in (e.args[1].elts if isinstance(e.args[1], ast.Tuple) else [e.args[1]])]
            if names == ["Literal"]:
                return "LIT"
            if names == ["Variable"]:
                return "ISVAR"
            if all(n in ("Flatten", "DomainMapping") for n in names):
                return "ISFLAT"
            return None
        if u == f"{vn}._domain_":
            return "DOMAIN"
        if u == f"{vn}._is_inferred_":
            return "INFERRED"
        if u == f"{vn}._predicate_type_":
            return "PRED"
        if isinstance(e, ast.Compare) and len(e.ops) == 1 and isinstance(e.ops[0], (ast.In, ast.NotIn)) and unparse(e.comparators[0]) == bp:
            return ("!" if isinstance(e.ops[0], ast.NotIn) else "") + "BOUND"
        if isinstance(e, ast.Compare) and len(e.ops) == 1 and isinstance(e.ops[0], (ast.In, ast.NotIn)) and unparse(e.left) == vn:
            return ("!" if isinstance(e.ops[0], ast.NotIn) else "") + "SEEN"
        if isinstance(e, ast.Call) and dotted(e.func) == "any" and e.args and isinstance(e.args[0], ast.GeneratorExp) and vn in unparse(e.args[0].elt):
            return "SEEN"
        return None
    cases = {
        "a variable with a domain": (dict(ISVAR=True, LIT=False, ISFLAT=False, DOMAIN=True, INFERRED=False, PRED=False, BOUND=False, SEEN=False), True),
        "a variable declared without a domain (ranges over the registry)": (dict(ISVAR=True, LIT=False, ISFLAT=False, DOMAIN=False, INFERRED=False, PRED=False, BOUND=False, SEEN=False), True),
        "a flattened expression": (dict(ISVAR=False, LIT=False, ISFLAT=True, DOMAIN=False, INFERRED=False, PRED=False, BOUND=False, SEEN=False), True),
        "something the row binds already": (dict(ISVAR=True, LIT=False, ISFLAT=False, DOMAIN=True, INFERRED=False, PRED=False, BOUND=True, SEEN=False), False),
        "an inferred variable": (dict(ISVAR=True, LIT=False, ISFLAT=False, DOMAIN=False, INFERRED=True, PRED=False, BOUND=False, SEEN=False), False),
        "a literal": (dict(ISVAR=True, LIT=True, ISFLAT=False, DOMAIN=True, INFERRED=False, PRED=False, BOUND=False, SEEN=False), False),
    }
    for label, (env, want) in cases.items():
        got = False
        try:
            for c in appends:
                st = c
                while not isinstance(st, ast.stmt):
                    st = db.parent(st)
                g = [(t, pol) for t, pol in (guards_of(st, m.node.body) or []) if any(isinstance(x, ast.Name) and x.id == vn for x in ast.walk(t))]
                # `continue` guards earlier in the same loop body count as negative guards
                loop = next((l for l in own_nodes(m.node) if isinstance(l, ast.For) and any(x is st for x in ast.walk(l))), None)
                skips = []
                if loop is not None:
                    inner = [l for l in ast.walk(loop) if isinstance(l, ast.For) and any(x is st for x in ast.walk(l))][-1]
                    for s_ in inner.body:
                        if s_ is st or any(x is st for x in ast.walk(s_)):
                            break
                        if isinstance(s_, ast.If) and s_.body and isinstance(s_.body[-1], ast.Continue) and not s_.orelse:
                            skips.append(s_.test)
                if all(bool(eval_bool(t, atom, env)) == pol for t, pol in g) and not any(bool(eval_bool(t, atom, env)) for t in skips):
                    got = True
        except (AnalysisError, KeyError) as e:
            out.append(inst("CONCLUSION-VARS-BOUND", UNDECIDED, m, f"{m.short}[{label}]", f"guards not decidable: {e}", line=m.lineno))
            continue
        ok = got == want
        out.append(inst("CONCLUSION-VARS-BOUND", HOLDS if ok else VIOLATION, m, f"{m.short}[{label}]",
                        f"{'bound' if got else 'left alone'} before the conclusion is drawn" if ok else
                        f"{label} that a conclusion mentions and the fired row lacks is {'bound (it must not be)' if got else 'NOT bound'} before the conclusion is drawn"
                        + ("" if got else ": the conclusion takes its first value only - Add(t, Tag(box=b, item=flatten(b.items))) is drawn for the first element of each "
                                          "box, a conclusion over let(H) for the first registered H"), line=m.lineno))
    return out


# ---------------------------------------------------------------------------------- INFER-MARK
def rule_infer_mark(db: ProgramDB) -> List[Instance]:
    """Which selected expressions a rule marks as inferred (their values come from the conclusions): a variable the rule
    concludes on, a variable without a supplied domain - not a flattened expression (it has no such mark), not a variable with a
    supplied domain that is merely selected next to the inferred one (it would stop ranging over its domain)."""
    from ..boolexpr import guards_of, eval_bool
    out = []
    qod = db.cls("QueryObjectDescriptor")
    m = qod.methods.get("_inform_selected_variables_that_they_should_be_inferred_")
    if m is None:
        raise AnalysisError("QueryObjectDescriptor._inform_selected_variables_that_they_should_be_inferred_ not found")
    marks = [a for a in own_nodes(m.node) if isinstance(a, ast.Assign) and any(isinstance(t, ast.Attribute) and t.attr == "_is_inferred_" for t in a.targets)
             and isinstance(a.value, ast.Constant) and a.value.value is True]
    if not marks:
        raise AnalysisError("the statement that marks a selected variable as inferred was not found")
    mark = marks[0]
    vn = unparse(mark.targets[0].value)
    defs = local_defs(m)

    def atom(e):
        u = unparse(e)
        if isinstance(e, ast.Call) and dotted(e.func) == "isinstance" and len(e.args) == 2 and unparse(e.args[0]) == vn and unparse(e.args[1]).endswith("Variable"):
            return "ISVAR"
        if u == f"{vn}._is_inferred_":
            return "MARKED"
        if u == f"{vn}._domain_source_":
            return "SOURCE"
        if u == f"{vn}._domain_is_the_registry_":
            return "REGISTRY"
        if isinstance(e, ast.Call) and dotted(e.func) == "any" and e.args and isinstance(e.args[0], ast.GeneratorExp) and vn in unparse(e.args[0].elt):
            return "TARGET"
        if isinstance(e, ast.Compare) and len(e.ops) == 1 and isinstance(e.ops[0], (ast.In, ast.NotIn)) and unparse(e.left) == vn:
            return ("!" if isinstance(e.ops[0], ast.NotIn) else "") + "TARGET"
        return None
    loop = next((l for l in own_nodes(m.node) if isinstance(l, ast.For) and any(x is mark for x in ast.walk(l))), None)
    if loop is None:
        raise AnalysisError("the mark is not set in a loop over the selected variables")
    cases = {
        "a variable the rule concludes on": (dict(ISVAR=True, MARKED=False, SOURCE=False, REGISTRY=False, TARGET=True), True),
        "a concluded-on variable that has a supplied domain": (dict(ISVAR=True, MARKED=False, SOURCE=True, REGISTRY=False, TARGET=True), True),
        "a constructor term (no domain, no explicit conclusion)": (dict(ISVAR=True, MARKED=False, SOURCE=False, REGISTRY=False, TARGET=False), True),
        "a variable with a supplied domain selected next to the inferred one": (dict(ISVAR=True, MARKED=False, SOURCE=True, REGISTRY=False, TARGET=False), False),
        "a flattened expression selected next to the inferred one": (dict(ISVAR=False, MARKED=False, SOURCE=False, REGISTRY=False, TARGET=False), False),
        # marked = recorded for un-marking at the next reset: a variable that is inferred for good (the term of a conclusion, Add(v, Term(...)),
        # selected by another rule as well) must not be recorded, or the first reset takes away a mark this evaluation did not give
        "a variable that is inferred already": (dict(ISVAR=True, MARKED=True, SOURCE=False, REGISTRY=False, TARGET=True), False),
    }
    for label, (env, want) in cases.items():
        try:
            g = [(_inline_predicate_calls(db, m, _inline_locals(t, defs)), pol) for t, pol in (guards_of(mark, loop.body) or [])]
            skips = []
            for s_ in loop.body:
                if s_ is mark or any(x is mark for x in ast.walk(s_)):
                    break
                if isinstance(s_, ast.If) and s_.body and isinstance(s_.body[-1], ast.Continue) and not s_.orelse:
                    skips.append(_inline_predicate_calls(db, m, _inline_locals(s_.test, defs)))
            got = all(bool(eval_bool(t, atom, env)) == pol for t, pol in g) and not any(bool(eval_bool(t, atom, env)) for t in skips)
        except (AnalysisError, KeyError) as e:
            if env["ISVAR"] is False:
                # evaluating an attribute of a non-variable is exactly the defect (AttributeError): the type test has to come first
                got = True
            else:
                out.append(inst("INFER-MARK", UNDECIDED, m, f"{m.short}[{label}]", f"guards not decidable: {e}", line=mark.lineno))
                continue
        ok = got == want
        out.append(inst("INFER-MARK", HOLDS if ok else VIOLATION, m, f"{m.short}[{label}]",
                        f"{'marked' if got else 'not marked'} as inferred" if ok else
                        f"{label} is {'marked as inferred (or its mark is read although it has none)' if got else 'not marked as inferred'}: " +
                        (("it is recorded as 'inferred for this evaluation' and un-marked by the next reset although this evaluation did not mark it: a conclusion's own "
                         "term that is also the selected variable of another rule stops being constructed after that rule was abandoned once" if env.get("MARKED") else
                         "a flattened expression has no such mark (AttributeError), and a variable with a domain that is marked stops ranging over its domain, so the "
                         "rule matches nothing") if got else "its value would be taken from existing instances instead of from the conclusions"), line=mark.lineno))
    # the sibling: infer(...) marks its selected variables itself, for the duration of its evaluation, and has to agree with the description on WHICH
    inf = db.cls("Infer").methods.get("_evaluate__")
    if inf is None:
        raise AnalysisError("Infer._evaluate__ not found")
    comps = [(a, a.value) for a in own_nodes(inf.node) if isinstance(a, ast.Assign) and isinstance(a.value, ast.ListComp) and len(a.value.generators) == 1
             and any(isinstance(x, ast.Attribute) and x.attr == "_is_inferred_" for x in ast.walk(a.value))]
    if not comps:
        raise AnalysisError("Infer._evaluate__: the collection of the variables it marks was not found")
    a_, comp = comps[0]
    ev = unparse(comp.generators[0].target)
    idefs = local_defs(inf)

    def atom_i(e):
        u = unparse(e)
        if isinstance(e, ast.Call) and dotted(e.func) == "isinstance" and len(e.args) == 2 and unparse(e.args[0]) == ev and unparse(e.args[1]).endswith("Variable"):
            return "ISVAR"
        if u == f"{ev}._is_inferred_":
            return "MARKED"
        if u == f"{ev}._domain_source_":
            return "SOURCE"
        if u == f"{ev}._domain_is_the_registry_":
            return "REGISTRY"
        if isinstance(e, ast.Call) and dotted(e.func) == "any" and e.args and isinstance(e.args[0], ast.GeneratorExp) and ev in unparse(e.args[0].elt):
            return "TARGET"
        if isinstance(e, ast.Compare) and len(e.ops) == 1 and isinstance(e.ops[0], (ast.In, ast.NotIn)) and unparse(e.left) == ev:
            return ("!" if isinstance(e.ops[0], ast.NotIn) else "") + "TARGET"
        return None
    for label, (env, want) in cases.items():
        try:
            tests = [_inline_predicate_calls(db, inf, _inline_locals(t, {k: v for k, v in idefs.items() if k != ev})) for t in comp.generators[0].ifs]
            got = all(bool(eval_bool(t, atom_i, env)) for t in tests)
        except (AnalysisError, KeyError) as e:
            if env["ISVAR"] is False:
                got = True
            else:
                out.append(inst("INFER-MARK", UNDECIDED, inf, f"{inf.short}[{label}]", f"conditions not decidable: {e}", line=a_.lineno))
                continue
        ok = got == want
        out.append(inst("INFER-MARK", HOLDS if ok else VIOLATION, inf, f"{inf.short}[{label}]",
                        f"{'marked' if got else 'not marked'} for the duration of the evaluation, as the description does" if ok else
                        f"{label} is {'marked as inferred' if got else 'not marked as inferred'} by infer(...), unlike by the description of a rule written with an(...): "
                        + ("a variable with a supplied domain that is merely selected next to the constructed one stops ranging over its domain - "
                           "infer(set_of([Pair(a=b1, b=b2), b1], …)) returns nothing" if got else "its value would be taken from existing instances"), line=a_.lineno))
    return out


# ---------------------------------------------------------------------------------- INFER-MARK (transient)
INFERRED_AT_CONSTRUCTION_OK = {
    ("Conclusion.__post_init__", "self.value._is_inferred_"): "the concluded value (the term written in the conclusion) is marked: it is constructed, never looked up",
}


def rule_infer_mark_transient(db: ProgramDB) -> List[Instance]:
    """'Inferred' is a state of a variable DURING the evaluation of the rule that infers it.  Variables are shared between
    queries, so the mark is given by evaluation code (and taken back: EVAL-STATE-RESET), never at construction time - a rule
    that marks its selected variables when it is built switches every other query over them to 'ranges over nothing'."""
    out = []
    se = db.cls("SymbolicExpression")
    n = 0
    for c in sorted([se] + se.all_subclasses(), key=lambda k: k.qualname):
        for name in ("__post_init__", "__init__"):
            m = c.methods.get(name)
            if m is None or m.cls is not c:
                continue
            for a in own_nodes(m.node):
                if isinstance(a, ast.Assign) and isinstance(a.value, ast.Constant) and a.value.value is True:
                    for t in a.targets:
                        if isinstance(t, ast.Attribute) and t.attr == "_is_inferred_" and not (isinstance(t.value, ast.Name) and t.value.id == "self"):
                            n += 1
                            why = INFERRED_AT_CONSTRUCTION_OK.get((m.short, unparse(t)))
                            out.append(inst("INFER-MARK", HOLDS if why else VIOLATION, m, f"{m.short}[{unparse(t)} = True at construction]",
                                            f"confirmed exception: {why}" if why else
                                            f"`{unparse(a)}` marks another node as inferred when this node is BUILT: the mark is never taken back, so after infer(entity(views, …)) "
                                            f"was written a plain query over `views` ranges over nothing, while a fresh variable of the same type sees the instances",
                                            line=a.lineno))
    if n == 0:
        out.append(inst("INFER-MARK", INFO, se, "constructors[no foreign inferred mark]", "no constructor marks another node as inferred"))
    return out


# ---------------------------------------------------------------------------------- SELECTOR-ROW-DEDUP
def _default_of(fn: FuncInfo, name: str) -> Optional[ast.AST]:
    a = fn.node.args
    pos = a.posonlyargs + a.args
    for arg, d in zip(pos[len(pos) - len(a.defaults):], a.defaults):
        if arg.arg == name:
            return d
    for arg, d in zip(a.kwonlyargs, a.kw_defaults):
        if arg.arg == name:
            return d
    return None


C12_SELECTORS = ("Alternative", "ExceptIf")      # what `alternative(...)` and `refinement(...)` build


def rule_selector_row_dedup(db: ProgramDB) -> List[Instance]:
    """'Each assignment … produces the conclusion ripple-down rules prescribe': the selectors that refinement / alternative build work
    per ASSIGNMENT.  The operators they inherit their evaluation from drop a true row when an earlier row agreed with it on the
    variables the parent asks for - for a selector those are the variables the conclusions mention - which is sound for a
    condition and wrong for a selector: two assignments that agree on those variables can select different conclusions (a
    refinement below tests a variable no conclusion mentions).  So, for each of these selector classes, either the duplicate test it
    resolves never answers 'duplicate' (conclusions are de-duplicated where they are attached, update_conclusion), or no site
    of its evaluation chain applies the test to a true row."""
    from ..boolexpr import guards_of
    out = []
    for cname in C12_SELECTORS:
        c = db.cls(cname)
        dup = c.lookup("_is_duplicate_output_")
        if dup is None:
            raise AnalysisError(f"{cname}: _is_duplicate_output_ not resolved")
        rets = [r for r in own_nodes(dup.node) if isinstance(r, ast.Return)]
        never = bool(rets) and all(isinstance(r.value, ast.Constant) and r.value.value is False for r in rets)
        if never:
            out.append(inst("SELECTOR-ROW-DEDUP", HOLDS, c, f"{cname}[true rows are not dropped by variable values]",
                            f"resolves `{dup.short}`, which never answers 'duplicate'"))
            continue
        # the evaluation chain: the class's _evaluate__ and what it reaches through super() / self calls
        chain, todo, seen = [], ["_evaluate__"], set()
        start = 0
        mro = c.mro
        def walk(name: str, from_idx: int):
            for j in range(from_idx, len(mro)):
                if name in mro[j].methods and mro[j].methods[name].cls is mro[j]:
                    m = mro[j].methods[name]
                    if m.qualname in seen:
                        return
                    seen.add(m.qualname)
                    chain.append(m)
                    for call in own_calls(m):
                        f = call.func
                        if isinstance(f, ast.Attribute) and isinstance(f.value, ast.Call) and dotted(f.value.func) == "super":
                            walk(f.attr, j + 1)
                        elif isinstance(f, ast.Attribute) and isinstance(f.value, ast.Name) and f.value.id == "self" and f.attr != "_is_duplicate_output_":
                            if c.lookup(f.attr) is not None and not f.attr.startswith("__"):
                                walk(f.attr, 0)
                    return
        walk("_evaluate__", 0)
        bad = None
        n_sites = 0
        for m in chain:
            for call in own_calls(m):
                if call_attr(call) != "_is_duplicate_output_":
                    continue
                n_sites += 1
                gs = list(guards_of(call, m.node.body) or [])
                # conjuncts evaluated before the call in its own test: `(is_false or …) and self._is_duplicate_output_(…)`
                par = db.parent(call)
                while isinstance(par, ast.UnaryOp):
                    par = db.parent(par)
                if isinstance(par, ast.BoolOp) and isinstance(par.op, ast.And):
                    for v in par.values:
                        if any(x is call for x in ast.walk(v)):
                            break
                        gs.append((v, True))
                params = fn_params(m)
                atoms: List[str] = []
                fixed: Dict[str, bool] = {}

                def atom_of(e, m=m, params=params):
                    if isinstance(e, ast.Compare) and len(e.ops) == 1 and isinstance(e.ops[0], (ast.In, ast.NotIn)):
                        u = unparse(e)              # membership in a local collection: a free atom
                        if u not in atoms:
                            atoms.append(u)
                        return u
                    if not isinstance(e, (ast.Name, ast.Attribute, ast.Call, ast.Subscript)):
                        return None
                    u = unparse(e)
                    if "_is_false_" in u or u == "is_false":
                        fixed[u] = False                 # the question is about TRUE rows
                    elif isinstance(e, ast.Name) and e.id in [q for q, _ in params]:
                        # the value the chain's own callers pass
                        vals = set()
                        for cm in chain:
                            for cc in own_calls(cm):
                                if call_attr(cc) == m.name and cm is not m:
                                    am = bind_args(params, cc)
                                    a = am.get(e.id)
                                    if a is None:
                                        dv = _default_of(m, e.id)
                                        vals.add(("default", unparse(dv) if dv is not None else "?"))
                                    elif isinstance(a, ast.Constant):
                                        vals.add(("const", repr(a.value)))
                                    else:
                                        vals.add(("expr", unparse(a)))
                        if vals and all(k in ("const", "default") for k, _ in vals) and len({v for _, v in vals}) == 1:
                            v = next(iter(vals))[1]
                            if v in ("True", "False"):
                                fixed[u] = v == "True"
                    if u not in atoms:
                        atoms.append(u)
                    return u
                from ..boolexpr import eval_bool

                class _Any(dict):
                    def __missing__(self, k):
                        return True
                try:
                    for g, _ in gs:
                        eval_bool(g, atom_of, _Any())
                    free = [a for a in atoms if a not in fixed]
                    import itertools
                    reach = False
                    for vals in itertools.product([False, True], repeat=len(free)):
                        env = dict(zip(free, vals))
                        env.update(fixed)
                        if all(bool(eval_bool(g, atom_of, env)) == pol for g, pol in gs):
                            reach = True
                            break
                except AnalysisError:
                    reach = True
                if reach:
                    bad = (m, call, [unparse(g) for g, _ in gs], "")
                    break
            if bad:
                break
        out.append(inst("SELECTOR-ROW-DEDUP", VIOLATION if bad else HOLDS, bad[0] if bad else c, f"{cname}[true rows are not dropped by variable values]",
                        f"{n_sites} site(s) of its evaluation chain apply the duplicate test, all to false rows only (they carry no conclusion)" if not bad else
                        f"`{bad[0].short}` (line {bad[1].lineno}), part of {cname}'s evaluation, applies `{dup.short}` to a true row: a row that agrees with an "
                        f"earlier one on the variables the conclusions mention is dropped before the selector below it has chosen its conclusion - the "
                        f"refinement's conclusion for that assignment is lost (an alternative that is not the last of its chain, a refinement on a variable "
                        f"no conclusion mentions)", line=bad[1].lineno if bad else None))
    return out


# ---------------------------------------------------------------------------------- DESCRIPTOR-SIBLINGS
def rule_descriptor_siblings(db: ProgramDB) -> List[Instance]:
    """entity(...) and set_of(...) are two descriptors with one implementation: whatever the engine decides by looking at the KIND of
    a descriptor it decides for every kind.  A type test that names one concrete descriptor class has the others in the same
    if / elif chain (the two ways of presenting a result), or names their common base; a test for `Entity` alone - where the
    conditions of a query start, which node a rule block re-enters - makes a rule written with set_of behave differently from the
    same rule written with entity (a refinement nested in a refinement under set_of: the concluded variable is no longer inferred)."""
    out = []
    qod = db.cls("QueryObjectDescriptor")
    kinds = {c.name for c in qod.all_subclasses(include_self=False)}
    if len(kinds) < 2:
        raise AnalysisError("fewer than two concrete descriptor classes found")
    n = 0

    def named(t) -> Set[str]:
        if isinstance(t, ast.Call) and dotted(t.func) == "isinstance" and len(t.args) == 2:
            return {unparse(e).split(".")[-1] for e in (t.args[1].elts if isinstance(t.args[1], ast.Tuple) else [t.args[1]])}
        return set()
    for fn in sorted(db.all_functions(), key=lambda f: f.qualname):
        for node in own_nodes(fn.node):
            if not (isinstance(node, ast.Call) and dotted(node.func) == "isinstance" and len(node.args) == 2):
                continue
            ks = named(node) & kinds
            if qod.name in named(node):
                n += 1
                out.append(inst("DESCRIPTOR-SIBLINGS", HOLDS, fn, f"{fn.short}[{unparse(node)[:50]}]", "tests for the common base of the descriptors", line=node.lineno))
                continue
            if not ks:
                continue
            n += 1
            missing = kinds - ks
            if missing:
                # the other kinds tested on the same subject elsewhere in the function (the arms of an if / elif chain, or of a run of
                # `if …: return` statements - the same thing written without else)
                chain_names: Set[str] = set()
                subject = unparse(node.args[0])
                for other in own_nodes(fn.node):
                    if isinstance(other, ast.Call) and dotted(other.func) == "isinstance" and len(other.args) == 2 and unparse(other.args[0]) == subject:
                        chain_names |= named(other)
                missing -= chain_names
            out.append(inst("DESCRIPTOR-SIBLINGS", VIOLATION if missing else HOLDS, fn, f"{fn.short}[{unparse(node)[:50]}]",
                            "every kind of descriptor is covered (same test, or the other arms of the chain)" if not missing else
                            f"`{unparse(node)}` singles out {sorted(ks)} and no other test of the function on the same subject covers {sorted(missing)}: a query built with "
                            f"{' / '.join(sorted(missing))} takes another path here than the same query built with {' / '.join(sorted(ks))} "
                            f"(where its conditions start, which node a rule block enters, which variable is inferred)", line=node.lineno))
    if n < 3:
        raise AnalysisError(f"only {n} type tests on descriptor kinds found (5 confirmed by reading)")
    return out


# ---------------------------------------------------------------------------------- EXPR-IDENTITY
def rule_expr_identity(db: ProgramDB) -> List[Instance]:
    """`==` on an expression BUILDS a comparison (a truthy object) - that is the language.  Engine code that asks 'is this the node I
    mean' therefore uses `is`: a test written with `==` / `!=` (or `in` over a list of nodes) is always true for variable-like nodes, so
    e.g. the re-link of a refinement always takes the left slot and overwrites the base when the refined branch is the right operand.
    Rule: no Eq / NotEq whose operand is a node-valued attribute (an operand or child slot, the graph parent, the conditions root) or a
    name bound from one."""
    out = []
    se = db.cls("SymbolicExpression")
    slots: Set[str] = {"_parent_", "_conditions_root_", "_root_", "_eval_parent_"}
    for c in [se] + se.all_subclasses():
        for f in c.own_fields:
            if f.annotation is None:
                continue
            u = unparse(f.annotation)
            if any(w in u for w in ("List", "Dict", "Set", "Iterable", "Tuple")):
                continue
            cls_ = db.annotation_classes(c.module, f.annotation)
            if cls_ and all(k is se or k.is_subclass_of(se) for k in cls_) and f.name in ("left", "right", "_child_", "_var_", "var", "value"):
                slots.add(f.name)
    n = 0
    for fn in sorted(db.all_functions(), key=lambda f: f.qualname):
        if fn.module not in ("rule", "symbolic", "entity", "predicate", "conclusion", "conclusion_selector"):
            continue
        defs = local_defs(fn)

        def node_valued(e) -> bool:
            if isinstance(e, ast.Attribute) and e.attr in slots and not (isinstance(e.value, ast.Name) and e.value.id in ("operator",)):
                return True
            if isinstance(e, ast.Call) and call_attr(e) == "_current_parent_":
                return True
            if isinstance(e, ast.Name):
                return any(isinstance(d, ast.AST) and not isinstance(d, ast.Name) and node_valued(d) for d in defs.get(e.id, []))
            return False
        for x in own_nodes(fn.node):
            if isinstance(x, ast.Compare) and len(x.ops) == 1 and isinstance(x.ops[0], (ast.In, ast.NotIn)):
                # membership of a node in a collection of nodes is decided with == as well; the graph nodes behind the expressions (`_node_`)
                # are dataclasses that compare by fields, one of which is never set
                l = x.left
                if (isinstance(l, ast.Attribute) and l.attr == "_node_") or (node_valued(l) and not isinstance(x.comparators[0], (ast.Dict, ast.Name))):
                    n += 1
                    out.append(inst("EXPR-IDENTITY", VIOLATION, fn, f"{fn.short}[{unparse(x)[:50]}]",
                                    f"`{unparse(x)[:70]}` asks with `in` whether a node is among other nodes: that compares with ==, which for a graph node reads a field "
                                    f"that is never set (AttributeError: a term with field constraints and no parent in a rule block, two open iterators of one rule) and for an "
                                    f"expression builds a comparison", line=x.lineno))
                continue
            if isinstance(x, ast.Compare) and len(x.ops) == 1 and isinstance(x.ops[0], (ast.Eq, ast.NotEq)):
                l, r = x.left, x.comparators[0]
                if isinstance(l, ast.Constant) or isinstance(r, ast.Constant):
                    continue
                if node_valued(l) or node_valued(r):
                    n += 1
                    out.append(inst("EXPR-IDENTITY", VIOLATION, fn, f"{fn.short}[{unparse(x)[:50]}]",
                                    f"`{unparse(x)}` compares nodes with `{'==' if isinstance(x.ops[0], ast.Eq) else '!='}`: on a variable-like node (a bare attribute, a "
                                    f"predicate-form variable) that builds a comparison expression, which is truthy, instead of answering whether it is the same node - "
                                    f"the branch is taken whatever the node is (a refinement under the right operand of an alternative overwrites the left one)", line=x.lineno))
    if n == 0:
        out.append(inst("EXPR-IDENTITY", HOLDS, db.fn("rule:refinement"), "engine[nodes are compared by identity]", "no == / != on a node-valued slot"))
    return out


# ---------------------------------------------------------------------------------- CONCLUDED-WHEN-KEPT / REFINEMENT-PER-ROW
def rule_concluded_when_kept(db: ProgramDB) -> List[Instance]:
    """A selector remembers which conclusions it has drawn (for which values of their variables) so that a later row does not draw them a
    second time.  It records that when it SELECTS them - but a refinement above can still override the row, and then they were not
    drawn: what was recorded for the row has to be taken back, otherwise the next assignment the conclusion applies to is taken for a
    repeat and gets nothing (two refinements of one node, the second with an alternative: the alternative's conclusion is never
    drawn).  Checked: (a) wherever update_conclusion adds to the record, it also notes the addition for the row being produced;
    (b) the refinement selector, in the loop over the rows of its right side (the refinement fired), takes back what its left side
    noted, before it hands the row on."""
    from ..cfg import CFG
    out = []
    cs = db.cls("ConclusionSelector")
    uc = cs.methods.get("update_conclusion")
    if uc is None:
        raise AnalysisError("ConclusionSelector.update_conclusion not found")
    adds = [c for c in own_calls(uc) if call_attr(c) == "add" and "concluded_before" in unparse(c.func.value)]
    if not adds:
        raise AnalysisError("update_conclusion: the record of drawn conclusions is not written")
    noted = [c for c in own_calls(uc) if call_attr(c) in ("append", "add") and isinstance(c.func.value, ast.Attribute) and unparse(c.func.value.value) == "self"
             and c.func.value.attr != "_conclusion_" and "concluded_before" not in unparse(c.func.value)
             and any(unparse(adds[0].args[0]) in unparse(a) for a in c.args)]
    out.append(inst("CONCLUDED-WHEN-KEPT", HOLDS if noted else VIOLATION, uc, "ConclusionSelector.update_conclusion[what is recorded for the row is noted]",
                    f"`{unparse(noted[0])[:60]}`" if noted else
                    "update_conclusion records the conclusions as drawn and keeps no note of what it recorded for the row being produced: it cannot be taken back when a "
                    "refinement above overrides the row", line=adds[0].lineno))
    ex = db.cls("ExceptIf")
    ev = ex.methods.get("_evaluate__")
    loops = [l for l in own_nodes(ev.node) if isinstance(l, ast.For) and isinstance(l.iter, ast.Call) and unparse(l.iter.func) == "self.right._evaluate__"]
    if not loops:
        raise AnalysisError("ExceptIf._evaluate__: the loop over the rows of the refinement was not found")
    cfg = CFG(ev)
    for lp in loops:
        head = next(nd for nd in cfg.nodes if nd.kind == "for" and nd.stmt is lp)
        body_ids = {id(x) for st_ in lp.body for x in ast.walk(st_)}
        takes_back = lambda nd: nd.ast is not None and any(isinstance(c, ast.Call) and isinstance(c.func, ast.Attribute) and unparse(c.func.value) == "self.left"
                                                            and ("take_back" in c.func.attr or "retract" in c.func.attr or "forget" in c.func.attr) for c in ast.walk(nd.ast))
        ys = [nd for nd in cfg.nodes if nd.has_yield and nd.ast is not None and id(nd.ast) in body_ids]
        # first iteration: from the loop head (entered from outside) to the yield without the take-back?  the guard `if not right_yielded`
        # is true on the first row, so its T edge is the one to follow
        def edge_ok(e):
            src = cfg.nodes[e.src]
            if src.kind == "test" and src.ast is not None and any(isinstance(c, ast.Call) and "take_back" in unparse(c) for st_ in getattr(src.stmt, "body", []) for c in ast.walk(st_)):
                # the guard of the take-back: on the FIRST row of the refinement its flag part holds; what is left is whether the refined branch is a selector at all
                return True
            return True
        bad = None
        for y in ys:
            p = cfg.find_path(head.id, lambda nd, y=y: nd.id == y.id, kinds=("n",), blocked=takes_back)
            if p is not None:
                # is the only way around the take-back the guard 'the refined branch is not a selector / not the first row'?
                tests_on_path = [cfg.nodes[e.src] for e in p if cfg.nodes[e.src].kind == "test"]
                guards_tb = [t for t in tests_on_path if any(isinstance(c, ast.Call) and isinstance(c.func, ast.Attribute) and "take_back" in c.func.attr
                                                             for st_ in getattr(t.stmt, "body", []) for c in ast.walk(st_))]
                if not guards_tb:
                    bad = (y, p)
        out.append(inst("CONCLUDED-WHEN-KEPT", VIOLATION if bad else HOLDS, ev, "ExceptIf._evaluate__[a refinement that fires takes back what the refined branch recorded]",
                        "when the refinement fires, the refined branch takes back what it recorded for the row (on the first row of the refinement, if it is a selector)" if not bad else
                        f"the row of a refinement that fired is handed on (`{bad[0].src()[:40]}`) without the refined branch taking back what it recorded as drawn for this row: a conclusion "
                        f"selected below and overridden here counts as concluded before, and the next assignment it applies to gets no conclusion", line=bad[0].lineno if bad else ev.lineno))
    return out


def rule_refinement_per_row(db: ProgramDB) -> List[Instance]:
    """A refinement is asked once per row of the branch it refines, and whether it fires decides for THAT row.  Its condition may suppress
    duplicates of its own true rows (an or_ inside it): the key it is given for them contains the variables of the refined branch -
    otherwise the refinement's row for the second assignment that agrees with the first on the variables the conclusions mention is
    dropped as a repeat, the refinement looks as if it had not fired, and the refined conclusion is drawn as well."""
    from ..abseval import AbsEval, State, TRUE
    from ..cfg import CFG
    out = []
    ex = db.cls("ExceptIf")
    m = ex.methods.get("_required_variables_from_child_")
    if m is None:
        raise AnalysisError("ExceptIf._required_variables_from_child_ not found")
    cfg = CFG(m)

    def attr_hook(e, st, ev):
        if isinstance(e, ast.Attribute) and isinstance(e.value, ast.Name) and e.value.id == "self":
            if e.attr in ("left", "right"):
                return ("obj", "#" + e.attr)
            if e.attr == "_parent_":
                return ("obj", "truthy")
        return None
    child_param = m.positional_params[1]
    ev = AbsEval(db, m, cfg, attr_hook=attr_hook)
    IN = ev.run(State({"when_true": TRUE, child_param: ("obj", "#right")}), kinds=("n",))
    reach = [cfg.nodes[i] for i, sts in IN.items() if sts]
    adds_left = any(nd.ast is not None and nd.kind == "stmt" and any(isinstance(c, ast.Call) and call_attr(c) in ("update", "add") and c.args
                    and unparse(c.args[0]) in ("self.left._unique_variables_",) for c in ast.walk(nd.ast)) for nd in reach)
    out.append(inst("REFINEMENT-PER-ROW", HOLDS if adds_left else VIOLATION, m, "ExceptIf._required_variables_from_child_[true rows of the refinement keyed by the refined branch's variables]",
                    "the rows of a refinement that fires are told apart by the variables of the branch it refines" if adds_left else
                    "the true rows of the refinement are keyed by the variables its conclusions mention (and what the parent asks for) only: with refinement(or_(x.c == 2, y.c > 0)) "
                    "and a conclusion on x, the refinement's row for (x0, y1) is a 'duplicate' of the one for (x0, y0), the refinement seems not to fire and the base conclusion "
                    "is drawn for an assignment the refinement applies to"))
    return out

