#!/venv/bin/python
"""
usage: tools/keep_seed.py <PROP> <seed dir (patch.diff, demo.py, README.md)> <name> [--force]

Confirms a seeded change in a scratch worktree of /repo's HEAD (demo passes on the clean tree, fails with the patch, the
pinned suite still passes with the patch), runs every registered quick check against /repo with the patch applied (dry:
evidence untouched; /repo restored straight afterwards), and stores the seed under /verif/seeded/<PROP>-<name>/ with a
meta.json recording what was run and which checks / rules reported it.
"""
import json, os, re, shutil, subprocess, sys, tempfile

VERIF = os.path.dirname(os.path.dirname(os.path.abspath(__file__)))
PROPS = "C01 C02 C03 C04 C05 C06 C07 C08 C09 C10 C11 C12 C13 C14 C16 C17 C18 C19 C20".split()


def sh(cmd, **kw):
    return subprocess.run(cmd, shell=True, capture_output=True, text=True, **kw)


def main():
    prop, sdir, name = sys.argv[1], os.path.abspath(sys.argv[2]), sys.argv[3]
    patch, demo = os.path.join(sdir, "patch.diff"), os.path.join(sdir, "demo.py")
    w = tempfile.mkdtemp(prefix="eqlseed.", dir="/tmp")
    os.rmdir(w)
    r = sh(f"git -C /repo worktree add -q --detach {w} HEAD")
    if r.returncode:
        print("cannot create worktree", r.stderr); return 2
    env = dict(os.environ, PYTHONPATH=f"{w}/src")
    try:
        c = subprocess.run(["/venv/bin/python", demo], cwd=w, env=env, capture_output=True, text=True, timeout=600)
        a = sh(f"git apply {patch}", cwd=w)
        if a.returncode:
            print("PATCH DOES NOT APPLY to HEAD:", a.stderr.strip()[:300]); return 3
        p = subprocess.run(["/venv/bin/python", demo], cwd=w, env=env, capture_output=True, text=True, timeout=600)
        s = sh(f"{VERIF}/tools/suite.sh {w}")
    finally:
        sh(f"git -C /repo worktree remove --force {w}")
    suite_ok = s.returncode == 0
    print(f"demo clean exit={c.returncode} patched exit={p.returncode} suite: {s.stdout.strip()}")
    confirmed = c.returncode == 0 and p.returncode != 0 and suite_ok
    if not confirmed and "--force" not in sys.argv:
        print("NOT CONFIRMED; not kept"); return 4
    # run the checks against /repo with the patch applied
    if sh("git -C /repo diff --quiet").returncode:
        print("/repo dirty"); return 2
    a = sh(f"git -C /repo apply {patch}")
    fired = {}
    try:
        for pid in PROPS:
            r = subprocess.run(["./run", "check", pid], cwd=VERIF, env=dict(os.environ, EQL_VERIF_DRY="1"),
                               capture_output=True, text=True)
            if r.returncode != 0:
                rules = sorted(set(re.findall(r"rule=([A-Z0-9-]+) construct=([^:]+):", r.stdout)))
                errs = re.findall(r"ANALYSIS-ERROR property=\S+ rule=(\S+)", r.stdout)
                fired[pid] = {"exit": r.returncode, "violations": [f"{a_}:{b_}" for a_, b_ in rules][:6],
                              "analysis_errors": sorted(set(errs))}
    finally:
        sh("git -C /repo checkout -- .")
    own = fired.get(prop, {})
    caught_by_own = own.get("exit") == 1
    print(f"checks reporting it: { {k: v['violations'][:2] or v['analysis_errors'] for k, v in fired.items()} }")
    print(f"caught by {prop}'s own check: {caught_by_own}")
    dest = os.path.join(VERIF, "seeded", f"{prop}-{name}")
    os.makedirs(dest, exist_ok=True)
    shutil.copy(patch, os.path.join(dest, "patch.diff"))
    shutil.copy(demo, os.path.join(dest, "demo.py"))
    readme = os.path.join(sdir, "README.md")
    if os.path.exists(readme):
        shutil.copy(readme, os.path.join(dest, "README.md"))
    head = sh("git -C /repo log --format=%h -1").stdout.strip()
    needs = ""
    if os.path.exists(readme):
        txt = open(readme).read()
        m = re.search(r"(?is)(needs?[^\n]*\n(?:.*\n){0,8})", txt)
        needs = (m.group(1).strip()[:700] if m else txt[:500])
    meta = {
        "property": prop,
        "name": name,
        "source": "independent sub-agent given only the property text and a scratch worktree",
        "needs_to_manifest": needs,
        "confirmed": {
            "repo_head": head,
            "demo_on_clean_tree_exit": c.returncode,
            "demo_with_patch_exit": p.returncode,
            "suite_with_patch": s.stdout.strip(),
            "commands": ["git worktree add --detach <scratch> HEAD", "PYTHONPATH=<scratch>/src /venv/bin/python demo.py",
                         "git apply patch.diff", "PYTHONPATH=<scratch>/src /venv/bin/python demo.py",
                         "tools/suite.sh <scratch>", "git worktree remove --force <scratch>",
                         "git -C /repo apply patch.diff; EQL_VERIF_DRY=1 ./run check <each id>; git -C /repo checkout -- ."],
        },
        "checks_reporting_it": fired,
        "caught_by_own_property_check": caught_by_own,
    }
    json.dump(meta, open(os.path.join(dest, "meta.json"), "w"), indent=1)
    print("kept as", dest)
    return 0


if __name__ == "__main__":
    sys.exit(main())
