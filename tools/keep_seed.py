#!/venv/bin/python
"""
usage: tools/keep_seed.py <PROP> <seed dir (patch.diff, demo.py, README.md)> <name> --base <repo commit> [--force]

A seeded change is pinned to the repository commit it was written against (`base`).  In a scratch worktree of that commit
(outside /repo and /verif, removed afterwards) this tool
  1. runs the demonstration on the clean tree (must exit 0) and with the patch applied (must fail), and the pinned 70-test
     suite with the patch (must still pass);
  2. runs every registered quick check against the scratch tree (EQL_VERIF_REPO=<scratch>, dry: no evidence written) without
     and with the patch, and attributes to the seed exactly the violations / analysis errors that the patch ADDS;
  3. does the same against /repo's HEAD when the patch still applies there (later fix: commits may have removed the
     conditions the seed needs, or touched the same lines).
The seed is stored under /verif/seeded/<PROP>-<name>/ with a meta.json recording all of that.
"""
import json, os, re, shutil, subprocess, sys, tempfile

VERIF = os.path.dirname(os.path.dirname(os.path.abspath(__file__)))
PROPS = "C01 C02 C03 C04 C05 C06 C07 C08 C09 C10 C11 C12 C13 C14 C15 C16 C17 C18 C19 C20".split()


def sh(cmd, **kw):
    return subprocess.run(cmd, shell=True, capture_output=True, text=True, **kw)


def run_checks(repo_dir):
    """{prop: set of 'RULE:construct' violations} and {prop: set of undecided rules}"""
    viol, und = {}, {}
    procs = {}
    for pid in PROPS:
        procs[pid] = subprocess.Popen(["./run", "check", pid], cwd=VERIF, stdout=subprocess.PIPE, stderr=subprocess.STDOUT, text=True,
                                      env=dict(os.environ, EQL_VERIF_DRY="1", EQL_VERIF_REPO=repo_dir))
    for pid, p in procs.items():
        out, _ = p.communicate()
        v = set(f"{a}:{b}" for a, b in re.findall(r"rule=([A-Z0-9-]+) construct=(.+?): ", out))
        v |= set(f"{a}:{b}" for a, b in re.findall(r"KNOWN-FINDING: property=\S+ ([A-Z0-9-]+) (.+?): ", out))
        u = set(re.findall(r"ANALYSIS-ERROR property=\S+ rule=(\S+)", out))
        viol[pid], und[pid] = v, u
    return viol, und


def evaluate(commit, patch, demo, label):
    w = tempfile.mkdtemp(prefix="eqlseed.", dir="/tmp")
    os.rmdir(w)
    r = sh(f"git -C /repo worktree add -q --detach {w} {commit}")
    if r.returncode:
        return {"error": f"cannot create worktree at {commit}: {r.stderr.strip()}"}
    env = dict(os.environ, PYTHONPATH=f"{w}/src")
    res = {"commit": sh(f"git -C {w} log --format=%h -1").stdout.strip()}
    try:
        if sh(f"git apply --check {patch}", cwd=w).returncode:
            res["applies"] = False
            return res
        res["applies"] = True
        c = subprocess.run(["/venv/bin/python", demo], cwd=w, env=env, capture_output=True, text=True, timeout=900)
        v0, u0 = run_checks(w)
        sh(f"git apply {patch}", cwd=w)
        p = subprocess.run(["/venv/bin/python", demo], cwd=w, env=env, capture_output=True, text=True, timeout=900)
        s = sh(f"{VERIF}/tools/suite.sh {w}")
        v1, u1 = run_checks(w)
        res.update({"demo_on_clean_tree_exit": c.returncode, "demo_with_patch_exit": p.returncode,
                    "suite_with_patch": s.stdout.strip(), "suite_ok": s.returncode == 0})
        added = {}
        for pid in PROPS:
            dv = sorted(v1[pid] - v0[pid])
            du = sorted(u1[pid] - u0[pid])
            if dv or du:
                added[pid] = {"violations_added": dv[:8], "analysis_errors_added": du}
        res["reported_by"] = added
    finally:
        sh(f"git -C /repo worktree remove --force {w}")
    print(f"[{label} {res['commit']}] applies={res.get('applies')} demo clean={res.get('demo_on_clean_tree_exit')} "
          f"patched={res.get('demo_with_patch_exit')} suite_ok={res.get('suite_ok')} "
          f"reported_by={ {k: (v['violations_added'] or v['analysis_errors_added'])[0][:60] for k, v in res.get('reported_by', {}).items()} }")
    return res


def main():
    prop, sdir, name = sys.argv[1], os.path.abspath(sys.argv[2]), sys.argv[3]
    base = sys.argv[sys.argv.index("--base") + 1]
    patch, demo = os.path.join(sdir, "patch.diff"), os.path.join(sdir, "demo.py")
    at_base = evaluate(base, patch, demo, "base")
    confirmed = at_base.get("applies") and at_base.get("demo_on_clean_tree_exit") == 0 and \
        at_base.get("demo_with_patch_exit") not in (0, None) and at_base.get("suite_ok")
    if not confirmed and "--force" not in sys.argv:
        print("NOT CONFIRMED at its base commit; not kept")
        return 4
    at_head = evaluate("HEAD", patch, demo, "head")
    own = at_base.get("reported_by", {}).get(prop, {})
    caught_own = bool(own.get("violations_added"))
    caught_other = [k for k, v in at_base.get("reported_by", {}).items() if k != prop and v.get("violations_added")]
    print(f"reported by {prop}'s own check (violation added by the patch): {caught_own}; by other checks: {caught_other}")
    dest = os.path.join(VERIF, "seeded", f"{prop}-{name}")
    os.makedirs(dest, exist_ok=True)
    for f in ("patch.diff", "demo.py", "README.md"):
        src = os.path.join(sdir, f)
        if os.path.exists(src) and os.path.abspath(src) != os.path.abspath(os.path.join(dest, f)):
            shutil.copy(src, os.path.join(dest, f))
    readme = os.path.join(dest, "README.md")
    needs = ""
    if os.path.exists(readme):
        txt = open(readme).read()
        m = re.search(r"(?is)(needs?[^\n]*\n(?:.*\n){0,8})", txt)
        needs = (m.group(1).strip()[:700] if m else txt[:500])
    meta = {
        "property": prop, "name": name,
        "source": "independent sub-agent given only the property text and a scratch worktree of /repo at base_commit",
        "base_commit": at_base.get("commit"),
        "needs_to_manifest": needs,
        "confirmed_at_base": at_base,
        "at_repo_head": at_head,
        "reported_by_own_property_check": caught_own,
        "reported_by_other_checks": caught_other,
        "how": ["git -C /repo worktree add --detach <scratch> <commit>", "PYTHONPATH=<scratch>/src /venv/bin/python demo.py  (clean, then after git apply patch.diff)",
                "tools/suite.sh <scratch>  (pinned 70 tests)", "EQL_VERIF_REPO=<scratch> EQL_VERIF_DRY=1 ./run check <id>  for every id, without and with the patch; "
                "only violations the patch adds are attributed to it", "git -C /repo worktree remove --force <scratch>"],
    }
    # what the checks said the first time this seed was evaluated (before any strengthening it led to) is kept for good
    first = {"reported_by_own_property_check": caught_own, "reported_by_other_checks": caught_other,
             "analysis_error_only": bool(own.get("analysis_errors_added")) and not caught_own,
             "verif_commit": sh("git -C %s log --format=%%h -1" % VERIF).stdout.strip()}
    old_meta = os.path.join(dest, "meta.json")
    note = None
    if os.path.exists(old_meta):
        try:
            om = json.load(open(old_meta))
            first = om.get("first_pass")     # a seed kept before first passes were recorded has none
            note = om.get("note")            # a hand-written remark about the seed survives re-evaluation
        except Exception:
            pass
    if note:
        meta["note"] = note
    if first is not None:
        meta["first_pass"] = first
    json.dump(meta, open(os.path.join(dest, "meta.json"), "w"), indent=1)
    print("kept as", dest)
    return 0


if __name__ == "__main__":
    sys.exit(main())
