#!/bin/sh
# usage: tools/try_seed.sh <patch.diff> [prop ids...]
# Applies a seeded change to /repo, runs the quick checks (dry: evidence files are not rewritten), prints which checks
# report it, and undoes the change straight afterwards.
P="$1"; shift
IDS="$*"
[ -n "$IDS" ] || IDS="C01 C02 C03 C04 C05 C06 C07 C08 C09 C10 C11 C12 C13 C14 C15 C16 C17 C18 C19 C20"
cd /repo || exit 2
if ! git diff --quiet; then echo "/repo is dirty, refusing"; exit 2; fi
git apply "$P" || { echo "patch does not apply"; exit 2; }
cd /verif
for i in $IDS; do
  OUT=$(EQL_VERIF_DRY=1 ./run check $i 2>&1); rc=$?
  if [ $rc -ne 0 ]; then
    echo "== $i exit $rc"
    echo "$OUT" | grep -E "^\s+(src|  src)|VIOLATION|ANALYSIS-ERROR" | grep -v "^VIOLATION property" | cut -c1-260 | head -6
  fi
done
git -C /repo checkout -- . 
echo "(repo restored: $(git -C /repo status --short | wc -l) dirty files)"
