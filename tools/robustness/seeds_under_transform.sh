#!/bin/bash
# usage: tools/robustness/seeds_under_transform.sh <seed dir> [transform ...]  (default: composed)
# The other direction of the robustness test: a seeded change must STILL be reported by its property's check after the
# tree that contains it was re-spelled by behaviour-preserving transforms (the canonical form must not hide a violation).
# Two scratch worktrees of the seed's base commit outside /repo and /verif - one with the patch -, the same transforms applied
# to both, the property's check run dry on both; what the patched tree reports and the unpatched one does not is the seed's.
D=$(dirname "$0"); S=$(readlink -f $1); shift; TS="$*"; [ -n "$TS" ] || TS=composed
n=$(basename $S); P=${n%%-*}
base=$(/venv/bin/python -c "import json;print(json.load(open('$S/meta.json'))['base_commit'])")
res=""
for side in clean patched; do
  W=/tmp/eql_sut_${n}_$side
  git -C /repo worktree remove --force $W 2>/dev/null; rm -rf $W
  git -C /repo worktree add -q --detach $W $base || { echo "$n: cannot create worktree"; exit 2; }
  if [ $side = patched ]; then git -C $W apply $S/patch.diff || { echo "$n: patch does not apply"; git -C /repo worktree remove --force $W; exit 2; }; fi
  for t in $TS; do
    if [ "$t" = composed ]; then L="tf_compr tf_ternary tf_yieldfrom tf_streamlocal tf_alias tf_nestif tf_evalpos tf_dictmerge tf_isinstance_or tf_noelse tf_continue swap_ifelse tf_rename"; else L=$t; fi
    for u in $L; do /venv/bin/python $D/$u.py $W > /dev/null 2>/tmp/eql_sut_err_$n || echo "$n: transform $u failed on $side: $(tail -1 /tmp/eql_sut_err_$n)"; done
  done
  # one line per reported (rule, construct) - the construct key, not the line number, identifies an instance on both sides
  EQL_VERIF_REPO=$W EQL_VERIF_DRY=1 /verif/run check $P 2>&1 | grep -E "^  src.* rule=|^ANALYSIS-ERROR" | sed -E 's/^  src[^ ]* [^ ]* rule=([A-Z-]+) construct=([^:]*(\[[^]]*\])?).*/\1 \2/; s/^ANALYSIS-ERROR.*rule=([A-Z-]+).*/ANALYSIS:\1/' | cut -c1-120 | sort -u > /tmp/eql_sut_${n}_$side.txt
  git -C /repo worktree remove --force $W
done
added=$(diff /tmp/eql_sut_${n}_clean.txt /tmp/eql_sut_${n}_patched.txt | grep "^>" | sed 's/^> //' | cut -c1-90 | tr '\n' ';')
echo "$n after [$TS]: added by the patch: ${added:-NOTHING}"
rm -f /tmp/eql_sut_${n}_clean.txt /tmp/eql_sut_${n}_patched.txt /tmp/eql_sut_err_$n
