import ast,glob,sys
root=sys.argv[1]
class T(ast.NodeTransformer):
    def _body(self, body):
        out=[]
        for i,st in enumerate(body):
            if isinstance(st,ast.If) and not st.orelse and len(st.body)==1 and isinstance(st.body[0],ast.Continue) and i < len(body)-1:
                rest=self._body(body[i+1:])
                t=st.test
                nt=t.operand if isinstance(t,ast.UnaryOp) and isinstance(t.op,ast.Not) else ast.UnaryOp(op=ast.Not(),operand=t)
                out.append(ast.If(test=nt,body=rest,orelse=[]))
                return out
            out.append(st)
        return out
    def visit_For(self,node):
        self.generic_visit(node)
        node.body=self._body(node.body); return node
    visit_While=visit_For
n=0
for f in glob.glob(root+'/src/entity_query_language/*.py'):
    t=T().visit(ast.parse(open(f).read())); ast.fix_missing_locations(t)
    out=ast.unparse(t); compile(out,f,'exec'); open(f,'w').write(out+'\n')
print('continue-guards inverted')
