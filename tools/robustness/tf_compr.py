"""`x = [e for t in it if c]` (statement level, one generator, x a name) becomes `x = []` + a loop with append; `x = {k: v for …}`
becomes `x = {}` + a loop with item assignment."""
import ast,glob,sys
root=sys.argv[1]
class T(ast.NodeTransformer):
    def fold(self,body):
        out=[]
        for s in body:
            if isinstance(s,ast.Assign) and len(s.targets)==1 and isinstance(s.targets[0],ast.Name) and isinstance(s.value,(ast.ListComp,ast.DictComp)) \
                    and len(s.value.generators)==1 and not s.value.generators[0].is_async \
                    and not any(isinstance(x,ast.Name) and x.id==s.targets[0].id for x in ast.walk(s.value)):
                g=s.value.generators[0]; x=s.targets[0].id
                if isinstance(s.value,ast.ListComp):
                    init=ast.List(elts=[],ctx=ast.Load())
                    inner=ast.Expr(value=ast.Call(func=ast.Attribute(value=ast.Name(id=x,ctx=ast.Load()),attr="append",ctx=ast.Load()),args=[s.value.elt],keywords=[]))
                else:
                    init=ast.Dict(keys=[],values=[])
                    inner=ast.Assign(targets=[ast.Subscript(value=ast.Name(id=x,ctx=ast.Load()),slice=s.value.key,ctx=ast.Store())],value=s.value.value)
                b=[inner]
                for c in reversed(g.ifs): b=[ast.If(test=c,body=b,orelse=[])]
                out.append(ast.copy_location(ast.Assign(targets=[ast.Name(id=x,ctx=ast.Store())],value=init),s))
                out.append(ast.copy_location(ast.For(target=g.target,iter=g.iter,body=b,orelse=[]),s))
                continue
            out.append(s)
        return out
    def generic_visit(self,node):
        super().generic_visit(node)
        for fld in ("body","orelse","finalbody"):
            b=getattr(node,fld,None)
            if isinstance(b,list) and b and isinstance(b[0],ast.stmt): setattr(node,fld,self.fold(b))
        return node
for f in glob.glob(root+'/src/entity_query_language/*.py'):
    t=T().visit(ast.parse(open(f).read())); ast.fix_missing_locations(t)
    out=ast.unparse(t); compile(out,f,'exec'); open(f,'w').write(out+'\n')
print('statement-level comprehensions expanded into loops')
