"""`isinstance(x, (A, B))` becomes `isinstance(x, A) or isinstance(x, B)` (x a name or attribute chain: no side effects)."""
import ast,glob,sys,copy
root=sys.argv[1]
class T(ast.NodeTransformer):
    def visit_Call(self,node):
        self.generic_visit(node)
        if isinstance(node.func,ast.Name) and node.func.id=="isinstance" and len(node.args)==2 and isinstance(node.args[1],ast.Tuple) and len(node.args[1].elts)>=2 \
                and all(isinstance(x,(ast.Name,ast.Attribute)) for x in ast.walk(node.args[0]) if not isinstance(x,(ast.Load,))):
            return ast.copy_location(ast.BoolOp(op=ast.Or(),values=[ast.Call(func=ast.Name(id="isinstance",ctx=ast.Load()),args=[copy.deepcopy(node.args[0]),e],keywords=[]) for e in node.args[1].elts]),node)
        return node
for f in glob.glob(root+'/src/entity_query_language/*.py'):
    t=T().visit(ast.parse(open(f).read())); ast.fix_missing_locations(t)
    out=ast.unparse(t); compile(out,f,'exec'); open(f,'w').write(out+'\n')
print('isinstance over tuples expanded into disjunctions')
