"""The request for false rows is passed positionally: X._evaluate__(s, yield_when_false=f) becomes X._evaluate__(s, f) (every implementation
has the signature (self, sources, yield_when_false))."""
import ast,glob,sys
root=sys.argv[1]
class T(ast.NodeTransformer):
    def visit_Call(self,node):
        self.generic_visit(node)
        if isinstance(node.func,ast.Attribute) and node.func.attr=="_evaluate__" and len(node.args)==1 and len(node.keywords)==1 and node.keywords[0].arg=="yield_when_false":
            node.args.append(node.keywords[0].value); node.keywords=[]
        return node
for f in glob.glob(root+'/src/entity_query_language/*.py'):
    t=T().visit(ast.parse(open(f).read())); ast.fix_missing_locations(t)
    out=ast.unparse(t); compile(out,f,'exec'); open(f,'w').write(out+'\n')
print('false-row request passed positionally')
