"""`x = copy(a)` / `a.copy()` / `dict(a)` immediately followed by `x.update(b)` becomes `x = {**a, **b}` (a and b are dicts of
bindings wherever the package does this)."""
import ast,glob,sys
root=sys.argv[1]
def copied(v):
    if isinstance(v,ast.Call) and isinstance(v.func,ast.Name) and v.func.id in ("copy","dict") and len(v.args)==1 and not v.keywords: return v.args[0]
    if isinstance(v,ast.Call) and isinstance(v.func,ast.Attribute) and v.func.attr=="copy" and not v.args: return v.func.value
    return None
class T(ast.NodeTransformer):
    def fold(self,body):
        out=[];i=0
        while i<len(body):
            s=body[i]; n=body[i+1] if i+1<len(body) else None
            if isinstance(s,ast.Assign) and len(s.targets)==1 and isinstance(s.targets[0],ast.Name) and copied(s.value) is not None \
               and isinstance(n,ast.Expr) and isinstance(n.value,ast.Call) and isinstance(n.value.func,ast.Attribute) and n.value.func.attr=="update" \
               and isinstance(n.value.func.value,ast.Name) and n.value.func.value.id==s.targets[0].id and len(n.value.args)==1 and not n.value.keywords \
               and isinstance(copied(s.value),(ast.Name,ast.Attribute)) and isinstance(n.value.args[0],(ast.Name,ast.Attribute)):
                s.value=ast.copy_location(ast.Dict(keys=[None,None],values=[copied(s.value),n.value.args[0]]),s.value)
                out.append(s); i+=2; continue
            out.append(s); i+=1
        return out
    def generic_visit(self,node):
        super().generic_visit(node)
        for fld in ("body","orelse","finalbody"):
            b=getattr(node,fld,None)
            if isinstance(b,list) and b and isinstance(b[0],ast.stmt): setattr(node,fld,self.fold(b))
        return node
n=0
for f in glob.glob(root+'/src/entity_query_language/*.py'):
    src=open(f).read(); t=T().visit(ast.parse(src)); ast.fix_missing_locations(t)
    out=ast.unparse(t); compile(out,f,'exec'); open(f,'w').write(out+'\n'); n+=out.count('**')-ast.unparse(ast.parse(src)).count('**')
print(f'copy-then-update pairs merged into dict displays ({n//2} sites)')
