"""`x = A if c else B` (a plain assignment to one name or attribute) becomes `if c: x = A` / `else: x = B`."""
import ast,glob,sys,copy
root=sys.argv[1]
class T(ast.NodeTransformer):
    def visit_Assign(self,node):
        if len(node.targets)==1 and isinstance(node.value,ast.IfExp) and isinstance(node.targets[0],(ast.Name,ast.Attribute)) \
                and not any(isinstance(x,ast.NamedExpr) for x in ast.walk(node.value)):
            a=ast.Assign(targets=[copy.deepcopy(node.targets[0])],value=node.value.body)
            b=ast.Assign(targets=[copy.deepcopy(node.targets[0])],value=node.value.orelse)
            return ast.copy_location(ast.If(test=node.value.test,body=[ast.copy_location(a,node)],orelse=[ast.copy_location(b,node)]),node)
        return node
for f in glob.glob(root+'/src/entity_query_language/*.py'):
    t=T().visit(ast.parse(open(f).read())); ast.fix_missing_locations(t)
    out=ast.unparse(t); compile(out,f,'exec'); open(f,'w').write(out+'\n')
print('conditional expressions in assignments expanded')
