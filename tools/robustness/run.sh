#!/bin/bash
# usage: tools/robustness/run.sh [transform ...]   (default: all)
# For each behaviour-preserving source transform: a scratch worktree of /repo's HEAD outside /repo and /verif, the transform
# applied to every module of the package, the suite (proof that behaviour is preserved), the 20 quick checks on the
# transformed tree (dry: no evidence written), the worktree removed.  Prints the checks that do not exit 0.
# Not registered in MANIFEST.json: this tests the checks, it decides no property.
D=$(dirname "$0"); W=/tmp/eql_robust
TS="$*"; [ -n "$TS" ] || TS="tf_reformat tf_rename swap_ifelse tf_continue tf_else tf_noelse tf_alias tf_streamlocal tf_nestif tf_evalpos tf_yieldfrom tf_ternary tf_dictmerge tf_isinstance_or tf_compr tf_pass composed"
for t in $TS; do
  git -C /repo worktree remove --force $W 2>/dev/null; rm -rf $W
  git -C /repo worktree add -q --detach $W HEAD || exit 2
  if [ "$t" = composed ]; then
    # thirteen of the transforms one after the other on the same tree: the canonical form has to absorb their interplay as well
    for u in tf_compr tf_ternary tf_yieldfrom tf_streamlocal tf_alias tf_nestif tf_evalpos tf_dictmerge tf_isinstance_or tf_noelse tf_continue swap_ifelse tf_rename; do
      /venv/bin/python $D/$u.py $W > /dev/null
    done
    echo "thirteen transforms composed"
  else
    /venv/bin/python $D/$t.py $W | tail -1
  fi
  s=$( /verif/tools/suite.sh $W 2>&1 | tail -1 )
  bad=""
  for i in $(seq -w 1 20); do
    EQL_VERIF_REPO=$W EQL_VERIF_DRY=1 /verif/run check C$i > /tmp/eql_robust_C$i.out 2>&1 || bad="$bad C$i"
  done
  echo "$t: suite [$s]; checks not exiting 0:${bad:- none}"
  for c in $bad; do grep -E "^VIOLATION|^ANALYSIS" -A1 /tmp/eql_robust_$c.out | grep -v "^--" | cut -c1-260 | head -6; done
  git -C /repo worktree remove --force $W; rm -f /tmp/eql_robust_C*.out
done
