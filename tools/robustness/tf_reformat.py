import ast,glob,sys
root=sys.argv[1]
for f in glob.glob(root+'/src/entity_query_language/*.py'):
    out=ast.unparse(ast.parse(open(f).read())); compile(out,f,'exec'); open(f,'w').write(out+'\n')
print('reformatted (comments dropped, layout normalised)')
