"""`if A and B: body` (no else) becomes `if A: if B: body`."""
import ast,glob,sys
root=sys.argv[1]
class T(ast.NodeTransformer):
    def visit_If(self,node):
        self.generic_visit(node)
        if not node.orelse and isinstance(node.test,ast.BoolOp) and isinstance(node.test.op,ast.And) and len(node.test.values)>=2 \
                and not any(isinstance(x,ast.NamedExpr) for x in ast.walk(node.test)):
            first=node.test.values[0]
            rest=node.test.values[1] if len(node.test.values)==2 else ast.BoolOp(op=ast.And(),values=node.test.values[1:])
            inner=ast.copy_location(ast.If(test=rest,body=node.body,orelse=[]),node)
            return ast.copy_location(ast.If(test=first,body=[inner],orelse=[]),node)
        return node
for f in glob.glob(root+'/src/entity_query_language/*.py'):
    t=T().visit(ast.parse(open(f).read())); ast.fix_missing_locations(t)
    out=ast.unparse(t); compile(out,f,'exec'); open(f,'w').write(out+'\n')
print('conjunctive guards nested')
