import ast,glob,sys
root=sys.argv[1]
ATTRS=("left","right","_child_")
class R(ast.NodeTransformer):
    def __init__(self,m): self.m=m
    def visit_Attribute(self,node):
        self.generic_visit(node)
        if isinstance(node.value,ast.Name) and node.value.id=="self" and node.attr in self.m and isinstance(node.ctx,ast.Load):
            return ast.copy_location(ast.Name(id=self.m[node.attr],ctx=ast.Load()),node)
        return node
    def visit_FunctionDef(self,node): return node   # no nested
    def visit_Lambda(self,node): return node
class T(ast.NodeTransformer):
    def visit_FunctionDef(self,node):
        args=[a.arg for a in node.args.args]
        if not args or args[0]!="self": return node
        if any(isinstance(x,(ast.FunctionDef,ast.Lambda)) for x in ast.walk(node) if x is not node): return node
        m={}
        for a in ATTRS:
            loads=[x for x in ast.walk(node) if isinstance(x,ast.Attribute) and isinstance(x.value,ast.Name) and x.value.id=="self" and x.attr==a and isinstance(x.ctx,ast.Load)]
            stores=[x for x in ast.walk(node) if isinstance(x,ast.Attribute) and isinstance(x.value,ast.Name) and x.value.id=="self" and x.attr==a and not isinstance(x.ctx,ast.Load)]
            if len(loads)>=2 and not stores: m[a]="the_"+a.strip("_")
        if not m: return node
        body=list(node.body); k=0
        if body and isinstance(body[0],ast.Expr) and isinstance(body[0].value,ast.Constant) and isinstance(body[0].value.value,str): k=1
        new=[R(m).visit(s) for s in body[k:]]
        pre=[ast.Assign(targets=[ast.Name(id=v,ctx=ast.Store())],value=ast.Attribute(value=ast.Name(id="self",ctx=ast.Load()),attr=a,ctx=ast.Load())) for a,v in m.items()]
        node.body=body[:k]+pre+new
        return node
n=0
for f in glob.glob(root+'/src/entity_query_language/*.py'):
    t=T().visit(ast.parse(open(f).read())); ast.fix_missing_locations(t)
    out=ast.unparse(t); compile(out,f,'exec'); open(f,'w').write(out+'\n')
print('operands aliased')
