"""`for x in <call>: …` becomes `stream_k = <call>; for x in stream_k: …` (the iterable is evaluated once, just before the loop,
either way)."""
import ast,glob,sys
root=sys.argv[1]
class T(ast.NodeTransformer):
    def __init__(self): self.k=0
    def _block(self, body):
        out=[]
        for s in body:
            s=self.visit(s)
            if isinstance(s,ast.For) and isinstance(s.iter,ast.Call) and not any(isinstance(x,(ast.Yield,ast.YieldFrom,ast.Await)) for x in ast.walk(s.iter)):
                self.k+=1
                n=f"stream_{self.k}"
                out.append(ast.copy_location(ast.Assign(targets=[ast.Name(id=n,ctx=ast.Store())],value=s.iter),s))
                s.iter=ast.copy_location(ast.Name(id=n,ctx=ast.Load()),s.iter)
            out.append(s)
        return out
    def generic_visit(self,node):
        for fld in ("body","orelse","finalbody"):
            b=getattr(node,fld,None)
            if isinstance(b,list) and b and isinstance(b[0],ast.stmt):
                setattr(node,fld,self._block(b))
        if isinstance(node,ast.Try):
            for h in node.handlers: h.body=self._block(h.body)
        return node
    def visit_Lambda(self,node): return node
for f in glob.glob(root+'/src/entity_query_language/*.py'):
    tr=T(); t=tr.generic_visit(ast.parse(open(f).read())); ast.fix_missing_locations(t)
    out=ast.unparse(t); compile(out,f,'exec'); open(f,'w').write(out+'\n')
print('loop iterables hoisted into locals')
