"""`yield from E` (as a statement) becomes `for row_k in E: yield row_k` (plain iteration: nothing in the package sends into or throws
into its generators)."""
import ast,glob,sys
root=sys.argv[1]
class T(ast.NodeTransformer):
    k=0
    def visit_Expr(self,node):
        if isinstance(node.value,ast.YieldFrom):
            T.k+=1
            n=f"row_{T.k}"
            loop=ast.For(target=ast.Name(id=n,ctx=ast.Store()),iter=node.value.value,body=[ast.Expr(value=ast.Yield(value=ast.Name(id=n,ctx=ast.Load())))],orelse=[])
            return ast.copy_location(loop,node)
        return node
for f in glob.glob(root+'/src/entity_query_language/*.py'):
    t=T().visit(ast.parse(open(f).read())); ast.fix_missing_locations(t)
    out=ast.unparse(t); compile(out,f,'exec'); open(f,'w').write(out+'\n')
print('yield from expanded into loops')
