import ast,glob,sys
root=sys.argv[1]
class Swap(ast.NodeTransformer):
    def visit_If(self,node):
        self.generic_visit(node)
        if node.orelse and not (len(node.orelse)==1 and isinstance(node.orelse[0],ast.If)):
            t=node.test
            nt=t.operand if isinstance(t,ast.UnaryOp) and isinstance(t.op,ast.Not) else ast.UnaryOp(op=ast.Not(),operand=t)
            return ast.If(test=nt,body=node.orelse,orelse=node.body)
        return node
for f in glob.glob(root+'/src/entity_query_language/*.py'):
    t=Swap().visit(ast.parse(open(f).read())); ast.fix_missing_locations(t)
    out=ast.unparse(t); compile(out,f,'exec'); open(f,'w').write(out+'\n')
print('swapped')
