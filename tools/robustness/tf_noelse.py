import ast,glob,sys
root=sys.argv[1]
def exits(body):
    return bool(body) and isinstance(body[-1],(ast.Return,ast.Raise,ast.Continue,ast.Break))
class T(ast.NodeTransformer):
    def _blk(self, body):
        out=[]
        for st in body:
            if isinstance(st,ast.If) and st.orelse and exits(st.body):
                out.append(ast.If(test=st.test,body=st.body,orelse=[])); out.extend(self._blk(st.orelse))
            else: out.append(st)
        return out
    def generic_visit(self,node):
        super().generic_visit(node)
        for fld in ("body","orelse","finalbody"):
            b=getattr(node,fld,None)
            if isinstance(b,list) and b and isinstance(b[0],ast.stmt) and not isinstance(node,(ast.ClassDef,ast.Module)):
                setattr(node,fld,self._blk(b))
        return node
for f in glob.glob(root+'/src/entity_query_language/*.py'):
    t=T().visit(ast.parse(open(f).read())); ast.fix_missing_locations(t)
    out=ast.unparse(t); compile(out,f,'exec'); open(f,'w').write(out+'\n')
print('else after exiting branches removed')
