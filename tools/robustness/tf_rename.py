"""Every local variable of every function without nested scopes gets an opaque name (v0, v1, ...)."""
import ast,glob,sys
root=sys.argv[1]
class T(ast.NodeTransformer):
    def visit_FunctionDef(self,node):
        inner=[x for x in ast.walk(node) if x is not node and isinstance(x,(ast.FunctionDef,ast.AsyncFunctionDef,ast.Lambda,ast.ClassDef))]
        if inner:
            self.generic_visit(node); return node
        a=node.args
        params={x.arg for x in a.posonlyargs+a.args+a.kwonlyargs}|({a.vararg.arg} if a.vararg else set())|({a.kwarg.arg} if a.kwarg else set())
        skip=set()
        for x in ast.walk(node):
            if isinstance(x,(ast.Global,ast.Nonlocal)): skip|=set(x.names)
        stored=[]
        for x in ast.walk(node):
            if isinstance(x,ast.Name) and isinstance(x.ctx,(ast.Store,ast.Del)) and x.id not in params and x.id not in skip and x.id not in stored:
                stored.append(x.id)
            if isinstance(x,ast.ExceptHandler) and x.name and x.name not in params and x.name not in stored: stored.append(x.name)
        m={n:f"v{i}_" for i,n in enumerate(stored)}
        for x in ast.walk(node):
            if isinstance(x,ast.Name) and x.id in m: x.id=m[x.id]
            if isinstance(x,ast.ExceptHandler) and x.name in m: x.name=m[x.name]
        return node
n=0
for f in glob.glob(root+'/src/entity_query_language/*.py'):
    t=T().visit(ast.parse(open(f).read())); ast.fix_missing_locations(t)
    out=ast.unparse(t); compile(out,f,'exec'); open(f,'w').write(out+'\n')
print('locals renamed')
