"""A `pass` after every simple statement of every function body (adjacency of statements is not meaning)."""
import ast,glob,sys
root=sys.argv[1]
class T(ast.NodeTransformer):
    def pad(self,body,infn):
        out=[]
        for s in body:
            out.append(s)
            if infn and isinstance(s,(ast.Assign,ast.AugAssign,ast.AnnAssign,ast.Expr)) and not (isinstance(s,ast.Expr) and isinstance(s.value,ast.Constant)):
                out.append(ast.copy_location(ast.Pass(),s))
        return out
    def visit(self,node,infn=False):
        infn = infn or isinstance(node,(ast.FunctionDef,ast.AsyncFunctionDef))
        for ch in ast.iter_child_nodes(node):
            self.visit(ch, infn and not isinstance(ch, ast.ClassDef))
        for fld in ("body","orelse","finalbody"):
            b=getattr(node,fld,None)
            if isinstance(b,list) and b and isinstance(b[0],ast.stmt) and not isinstance(node,(ast.Module,ast.ClassDef)):
                setattr(node,fld,self.pad(b,infn))
        if isinstance(node,ast.ExceptHandler): node.body=self.pad(node.body,infn)
        return node
for f in glob.glob(root+'/src/entity_query_language/*.py'):
    t=T().visit(ast.parse(open(f).read())); ast.fix_missing_locations(t)
    out=ast.unparse(t); compile(out,f,'exec'); open(f,'w').write(out+'\n')
print('a pass after every simple statement')
