#!/bin/sh
# Runs the repository's pinned suite (guard off; there are no hooks) and compares with BASELINE.json's stable set.
# usage: tools/suite.sh [repo_dir]
# The package is installed in /venv as an editable install of /repo/src: PYTHONPATH makes the suite import the tree under test.
R="${1:-/repo}"
OUT=$(mktemp /tmp/eql-junit.XXXXXX.xml)
cd "$R" && PYTHONPATH="$R/src" /venv/bin/python -m pytest -q -p no:cacheprovider --timeout=900 --continue-on-collection-errors --junitxml="$OUT" >/dev/null 2>&1
/venv/bin/python - "$OUT" <<'P'
import json,sys,xml.etree.ElementTree as ET
base=set(json.load(open('/root/.vp/BASELINE.json'))['stable_pass'])
t=ET.parse(sys.argv[1]).getroot()
passed=set()
for tc in t.iter('testcase'):
    if not any(ch.tag in('failure','error','skipped') for ch in tc):
        passed.add(tc.get('classname')+'::'+tc.get('name'))
missing=sorted(base-passed)
print(f"baseline {len(base)} passed-now {len(passed&base)} missing {missing}")
sys.exit(1 if missing else 0)
P
rc=$?
rm -f "$OUT"
exit $rc
