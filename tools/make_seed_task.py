#!/venv/bin/python
"""
usage: tools/make_seed_task.py <round dir, e.g. /tmp/wt3> [ids...]
Creates one scratch git worktree of /repo's HEAD per property under <round dir>/<ID> (outside /repo and /verif) and writes the
TASK.md a fresh sub-agent is pointed at.  The task contains the text of ONE property and nothing from /verif.
"""
import json, os, subprocess, sys

ROUND = sys.argv[1]
IDS = sys.argv[2:] or "C01 C02 C03 C04 C05 C06 C07 C08 C09 C10 C11 C12 C13 C14 C15 C16 C17 C18 C19 C20".split()
props = {json.loads(l)["id"]: json.loads(l) for l in open("/verif/properties.jsonl")}
ALREADY = """
## Changes that were already collected in earlier rounds - do NOT hand these in again (find something else)

- swapping `self._is_false_ = self.right._is_false_` and `self.update_cache(...)` in `AND._evaluate__`
- moving `self._reset_cache_()` out of the `finally:` of `An.evaluate` / `The.evaluate`, or making it reset only the root node
- memoising a pulled domain element after `yield` instead of before it in `HashedIterable.__iter__`
- evaluating the second operand of `Comparator._evaluate__` under `sources` instead of `first_value`
- `DomainMapping._evaluate__` evaluating its child with `_evaluate__` instead of `_evaluate_as_value_`
- an early `if not inner: return` in `Flatten._apply_mapping_`
- a wrong entry in the `Comparator._invert_` table, or `Not()` setting instead of toggling the flag
- `symbolic_mode` restoring the mode / leaving the query outside its `finally:`; `An.evaluate` deciding its mode override once
- `IndexedCache.clear()` forgetting `seen_set` or `flat_cache`; `SeenSet.clear` not resetting `all_seen`; `IndexedCache.check` storing
- `SeenSet.check` treating a key the lookup does not bind as covered; `insert` returning early for a binding seen before
- `DomainMapping._evaluate__` reading `self._yield_when_false_` instead of its argument
- the type filter in `extract_selected_variable_and_expression` built as a list, written back into the caller's `From`, or using `cls`
- `let` / `_update_domain_` testing the domain for truth
- `BinaryOperator._required_variables_from_child_` with `child is self.right`; dropping a line from any `_required_variables_from_child_`
- `_bind_selected_variables_` / `_bind_child_vars_` handing on `binding` instead of `extended_binding`, or extending it in place
- `HashedIterable.filter` made eager; `ALL.__hash__` returning a constant
- `ForAll._evaluate__` re-seeding when the intersection is empty; `for_all` built on `universal_variable._var_`
- `update_cache(left_value, self.right_cache)`; `right_cache.keys` taken from the left operand
- `Concatenate` skipping falsy scalars or classifying by try/except; `is_iterable` by exact type
- keyword arguments equal to None dropped; a keyword-only symbolic call run without its arguments
- clearing the lru_cache of `_required_variables_from_child_` on `SymbolicExpression` instead of `type(self)`, or only at the root
- `IndexedCache.retrieve` following the wildcard branch and the concrete branches both; inner cache levels created as `{}`;
  a derived `_key_set` computed once; `SeenSet.check` with a shortcut on the values; `HashedValue.__eq__` comparing payloads
- `HashedIterable.union` with `^`; `HashedIterable` wrapping its source in a helper that skips None / delegating with `yield from`;
  `self.iterable = []` after exhaustion
- the replay after `right_cache.check(...)` using another cache; the `BinaryOperator` cache-key filter dropping Flatten
- `tuple(d.items())` instead of `tuple(sorted(d.items()))` in `ForAll`
- `concluded_before` keyed by the concluded variable; `AND` assigning `_is_false_` after the duplicate test
- `let(..., name=...)` building the Variable itself; `flatten` / `concatenate` replacing a quantified sub-query by its `_var_`
- `Concatenate` keeping the child's other bindings in its row; `ElseIf` dropping `left_value.update(sources)`
- `DomainMapping` computing `_is_false_` as `v.value == self._invert_`; `Not()` negating a description in place
- removing the try/finally around `Variable._evaluate_kwargs_expression_`; un-inferring selected variables after the loop only
- `refinement()` choosing the slot to re-link by the parent's class; `ExceptIf` evaluating the refinement with `yield_when_false`
- dropping `self.left._is_false_ = True` from the "left yielded nothing" branch of `ElseIf`
- the `@predicate` wrapper converting positional arguments to keywords before the mode test; `let` rebuilding the mode from a boolean;
  a `yield from` inside `with symbolic_mode(mode=None)`
- `_falsy_value_is_false_` moved / overridden; a guard on `self.variable._is_false_` in `ForAll`; `Add` evaluating its value with `_evaluate__`
- `assignment.get(k) or All` in `IndexedCache.insert`; `seen_set.add(assignment)` without the copy; a memo of `check` answers;
  dropping the wildcard fallback in `retrieve`; moving the key-less early return of `insert` below `seen_set.add`
- moving `position = len(self.pulled)` below the snapshot in `HashedIterable.__iter__`; removing its re-read of the record after `yield`;
  `__len__` by iterating; removing the "already memoised" guard
- `Comparator._evaluate__` collecting its rows in a list; the bound-again branches of `DomainMapping` / `Comparator` ignoring `_invert_`,
  testing the wrapper, or dropping `yield_when_false`
- `QueryObjectDescriptor._reset_only_my_cache_` resetting only `selected_variable._var_`; `_cache_keys_` memoised; `get_cache_keys_for_class_` via `__subclasses__()`
- `The._evaluate_` never setting `_is_false_` back; `The.evaluate` / `An.evaluate` without (or with a conditional) `symbolic_mode(mode=None)`
- `HashedValue` ids from `hash(value)`; the conclusion-store filter dropping Flatten
- the precedence slip in `yield_final_output_from_cache`; dropping `self._child_._eval_parent_ = self`; `parent_id = self._id_` in `_is_duplicate_output_`
- `QueryObjectDescriptor._all_variable_instances_` with `elif`; the `From(...)` slot correction in `update_domain_and_kwargs_from_args`;
  `SetOf._evaluate__` not passing `yield_when_false`; `ConclusionSelector._caching_enabled_` returning the switch
- `ForAll` not emptying `solution_set`, extending `sources` in place, dropping its `condition._is_false_` guard; `AND` dropping `output.update(left_value)`
- `Concatenate` reusing the first inner list, `concatenate(flatten(x))` short-circuited, `Concatenate._all_variable_instances_` returning []
- removing / conditioning `self._child_._reset_cache_()` at the start of `An._evaluate__`; giving a domain-less variable a generator over the
  registry at declaration; `HashedIterable.__eq__` / `_optimize_or` changes that make `or_` build a `Union`; `Flatten` yielding `HashedValue(id_=value.id_, …)`
- `yield_final_output_from_cache(...)` called without / with a constant `yield_when_false`; `AND` dropping the `continue` (or returning) after a replay;
  `ElseIf` looking its `right_cache` up before testing the left row, or replaying on `sources`; `dict.fromkeys((True, False), SeenSet())`
- `IndexedCache.retrieve` asking `self.check(...)` first; `SeenSet.add` pruning stored constraints; `is_iterable` accepting `__getitem__`
- `Variable.__iter__` handing out memoised binding dicts; `_extract_variables_and_expression` not copying the list of selected variables
- `ForAll` projecting `condition_val` instead of `complete_val`, `self.solution_set.clear()`, completing unbound variables with `_evaluate__`
  or without the recursive call; `condition_unique_variable_ids` restricted to `Variable`
- `An.evaluate` using `next(results, None)`; `Index._apply_mapping_` treating None as a missing entry; `Entity._evaluate__` / `Comparator` /
  `Concatenate` evaluating a value with `_evaluate__`
- `Conclusion._reset_cache_` visiting `self.var`; `Variable._reset_only_my_cache_` guarded by `self._domain_.values`; `ConclusionSelector._reset_only_my_cache_`
  not clearing `_conclusion_`; removing `Alternative._is_duplicate_output_`; `alternative_or_next` climbing in two separate loops;
  `ExceptIf` updating `left_value` in place
- a module-level alias of `SymbolicExpression._symbolic_expression_stack_`; `_process_output_and_update_values_` / `_instantiate_new_values_…` calling
  user code without `_call_user_code_`; `symbolic_mode` restoring the hidden stack with `if hidden_stack:`; `__exit__` popping until it finds `self`;
  the `@predicate` wrapper deferring only when an argument is symbolic
- `MultipleSolutionFound.__init__` indexing its arguments; `update_cls_args` via `dataclasses.fields`; the `elif` order in
  `extract_selected_variable_and_expression`; `symbolic_new` replacing quantified keyword arguments by `._var_`; `_warn_on_unbound_variables_` sizing the domain by iterating;
  `HashedIterable.__iter__` replaying the live dict view; `Comparator` setting `_eval_parent_` on the wrong operand; `Not` remembering the operand it negated
- dropping `self._eval_parent_ = None` from the reset, or any `x._eval_parent_ = self` from an evaluator; `_required_variables_from_child_` asking the
  parent about `child` instead of `self`, passing `when_true` on unchanged, or guarding `ForAll`'s additions by `when_true`
- `_is_duplicate_output_` called on another row than the one yielded; dropping the `return` of a 'bound already' branch; `suppress_true_duplicates` added to / removed
  from a replay; moving `self._is_false_ = …` below the duplicate test or the cache update
- `HashedIterable.pulled` cleared on exhaustion or appended to in `add()`; `set_iterable` made eager; `HashedIterable.union` in place; `required_vars.update(var)`
- `==` instead of `is` between nodes in `refinement()`; `_conclusions_of_all_descendants_` over `_children_`; the reset of `concluded_before` moved; marking
  `self.var._var_` as inferred in `Conclusion.__post_init__`; dropping the `_is_inferred_` guard of `_inform_selected_variables_…`; hoisting `_unbound_conclusion_variables_`
  out of the row loop; `symbolic_mode(query)` setting `rule_mode` for every mode
- `_extract_variables_and_expression` adding a selected sub-query as a conjunct only conditionally; `select_one_or_select_many_or_infer` dropping `*properties`;
  `Variable._all_variable_instances_` filtering by `isinstance`; `Concatenate._all_variable_instances_ + [self]`; `Literal` copying its constant or not wrapping scalars;
  `__eq__` rewriting `== True/False`; `__ge__` building `gt`; `__getattr__` memoising `Attribute` nodes
- `cls_args` keyed by `__qualname__`; `type(x) is not cls` for a single-object domain; `hybrid_new` going symbolic whenever a query block is open; `__enter__` skipping the push;
  `properties_to_expression_tree` switching the mode by hand; the `@predicate` wrapper deferring only in query mode; `The._evaluate__` not passing `sources`
- `IndexedCache.retrieve` sharing one accumulator between branches, `cache.get(All)` tested by truth, `check()` answered by walking the tree; the literal filter of
  `LogicalOperator.__post_init__` changed to `v.value`; `ForAll` evaluating the universal without `sources`; `_process_output_and_update_values_` yielding by `result_truthy`
"""
TEMPLATE = """# Task

You are working in a scratch git worktree of a Python library (entity_query_language, a Pythonic relational query /
rule-inference language) at {w}. The package source is under {w}/src/entity_query_language, tests under
{w}/test, docs/examples under doc/ and examples/. Work ONLY inside {w}. Never touch /repo or /verif (do not
read /verif at all).

IMPORTANT environment note: /venv has the package installed in editable mode pointing at another checkout, so to import
THIS worktree's code you MUST set PYTHONPATH={w}/src for every python/pytest invocation, and verify once with:

    cd {w} && PYTHONPATH={w}/src /venv/bin/python -c "import entity_query_language; print(entity_query_language.__file__)"

Run the test suite with:

    cd {w} && PYTHONPATH={w}/src /venv/bin/python -m pytest -q -p no:cacheprovider test

On the unmodified worktree 70 tests pass and the 2 tests in test/test_rendering.py fail (pre-existing, ignore them).
There is no network.

## The property of the library you must attack (read it carefully)

**{pid}: {title}**

Statement: {statement}

Quantified over: {quant}

IMPORTANT: be economical with the machine: it is shared. Do not run more than two python processes at a time, give every fuzzing /
mutation loop a time limit, make sure nothing you started is still running when you finish (`pkill -f {w}` is fine), and aim to be
done within about two hours.

IMPORTANT: never use `git stash` (the stash is shared between worktrees of this repository and other people are working in sibling worktrees); use `git checkout -- src` / `git apply -R` to undo your edits, and keep copies of your patches as files.

## What to produce

Produce realistic changes to the library source (NOT the tests) that BREAK this property while (1) the package still
imports/compiles and (2) the existing test suite still passes exactly as before (the same 70 tests pass). A "realistic
change" is a plausible bug a maintainer could introduce: a refactoring slip, an "optimisation", a wrong variable, a
swapped operand, a missing reset/cleanup, an off-by-one, a wrong entry in a table, a dropped guard, state kept where it
should not be, etc. - small (typically 1-10 lines). Prefer changes that need something specific to manifest (an unusual
input or data value, a particular nesting of operators, a specific multi-step sequence of operations, an iterator closed
early, an exception raised at a particular point, an operator the tests never exercise, two cooperating sites that each
look fine alone) rather than something ordinary use would expose at once. Do not just raise exceptions or delete whole
features. Prefer code sites and mechanisms that are NOT the obvious first choice; at least one of your changes should touch
a file other than symbolic.py if the property allows it (cache_data.py, hashed_data.py, predicate.py, entity.py, rule.py,
conclusion.py, conclusion_selector.py, utils.py).
{already}
For each change, write a demonstration script that uses only the public API (`from entity_query_language import ...`,
plus documented helpers such as `entity_query_language.cache_data.enable_caching/disable_caching` or
`entity_query_language.symbolic.in_symbolic_mode` if needed), prints PASS and exits 0 on the UNMODIFIED worktree, and
exits non-zero (assertion failure) with your change applied. Verify both yourself, and verify the 70 tests still pass
with the change applied.

Produce 3 DIFFERENT, independent changes (touching different mechanisms / code sites). Each patch must apply
on its own to the clean worktree (`git checkout -- src` between them). Deliverables, for k = 1, 2, 3:

    {w}/seed<k>/patch.diff   output of `git diff -- src` ; must apply cleanly with `git apply` to the clean worktree
    {w}/seed<k>/demo.py      the demonstration
    {w}/seed<k>/README.md    which clause of the property it breaks, what it needs in order to manifest, and the
                                      exact commands you ran with their results (demo on clean tree, demo with patch, test
                                      suite with patch)

When done, leave the worktree's src/ clean (`git checkout -- src`) so only the seed directories remain as untracked
files. In your final answer list the seeds you produced with a one-line description each, plus any violation of the property
you noticed on the UNMODIFIED worktree (with a minimal reproducing script).
"""
os.makedirs(ROUND, exist_ok=True)
for pid in IDS:
    w = os.path.join(ROUND, pid)
    r = subprocess.run(f"git -C /repo worktree add -q --detach {w} HEAD", shell=True, capture_output=True, text=True)
    if r.returncode:
        print(pid, "worktree failed:", r.stderr.strip())
        continue
    p = props[pid]
    open(os.path.join(w, "TASK.md"), "w").write(TEMPLATE.format(w=w, pid=pid, title=p["title"], statement=p["statement"],
                                                               quant=p["quantifier"]["text"], already=ALREADY))
    print(pid, "ready at", w)
