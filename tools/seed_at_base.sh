#!/bin/sh
# usage: tools/seed_at_base.sh <seed name under /verif/seeded> [prop ids...]
# Runs the quick checks (dry) against a scratch worktree of the seed's base commit, without and with the patch, and prints the
# violations / analysis errors the patch adds.  The scratch worktree is removed afterwards.
S="$1"; shift
IDS="$*"
D=/verif/seeded/$S
BASE=$(/venv/bin/python -c "import json;print(json.load(open('$D/meta.json'))['base_commit'])")
[ -n "$IDS" ] || IDS=$(echo $S | cut -d- -f1)
W=$(mktemp -d /tmp/eqlbase.XXXXXX); rmdir $W
git -C /repo worktree add -q --detach $W $BASE || exit 2
for i in $IDS; do
  B=$(cd /verif && EQL_VERIF_REPO=$W EQL_VERIF_DRY=1 ./run check $i 2>&1 | grep -E "rule=|ANALYSIS-ERROR" | sed 's/^ *//' | cut -d' ' -f3- | cut -c1-200 | sort)
  echo "$B" > $W.before.$i
done
git -C $W apply $D/patch.diff || echo "patch does not apply at base"
for i in $IDS; do
  A=$(cd /verif && EQL_VERIF_REPO=$W EQL_VERIF_DRY=1 ./run check $i 2>&1 | grep -E "rule=|ANALYSIS-ERROR" | sed 's/^ *//' | cut -d' ' -f3- | cut -c1-200 | sort)
  echo "$A" > $W.after.$i
  echo "== $S / $i: added by the patch:"
  comm -13 $W.before.$i $W.after.$i | cut -c1-220
done
git -C /repo worktree remove --force $W; rm -f $W.before.* $W.after.*
