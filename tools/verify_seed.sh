#!/bin/sh
# usage: tools/verify_seed.sh <seed dir containing patch.diff and demo.py>
# Confirms, in a scratch worktree of /repo's HEAD: demo passes on the clean tree, fails with the patch, suite still passes
# with the patch.  Then runs the checks against the patched /repo (tools/try_seed.sh).  Removes the scratch worktree.
D="$1"
W=/tmp/wt/verify.$$
git -C /repo worktree add -q --detach "$W" HEAD || exit 2
cd "$W" || exit 2
export PYTHONPATH="$W/src"
timeout 300 /venv/bin/python "$D/demo.py" >/tmp/verify_clean.$$ 2>&1; c=$?
if git apply "$D/patch.diff" 2>/tmp/verify_apply.$$; then a=0; else a=1; fi
if [ $a -eq 0 ]; then
  timeout 300 /venv/bin/python "$D/demo.py" >/tmp/verify_patched.$$ 2>&1; p=$?
  R=$(/verif/tools/suite.sh "$W" 2>&1 | tail -1)
else
  p=-; R="patch does not apply: $(head -2 /tmp/verify_apply.$$ | tr '\n' ' ')"
fi
echo "demo clean exit=$c  demo patched exit=$p  suite: $R"
cd /; git -C /repo worktree remove --force "$W"; rm -f /tmp/verify_*.$$
unset PYTHONPATH
if [ $a -eq 0 ]; then /verif/tools/try_seed.sh "$D/patch.diff"; fi
