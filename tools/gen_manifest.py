#!/venv/bin/python
"""Regenerates /verif/MANIFEST.json from the registry of checks (eqlsa.props) + the not-applicable table."""
import json, os, sys
HERE = os.path.dirname(os.path.dirname(os.path.abspath(__file__)))
sys.path.insert(0, HERE)
from eqlsa.props import load_all
from eqlsa.methods import technique_of

NOT_APPLICABLE = {}
specs = load_all()
props = [json.loads(l) for l in open(os.path.join(HERE, "properties.jsonl"))]
checks, na = [], []
for p in props:
    pid = p["id"]
    if pid in specs:
        s = specs[pid]
        checks.append({
            "property_id": pid,
            "quick_cmd": f"./run check {pid} --tier quick",
            "thorough_cmd": f"./run check {pid} --tier thorough",
            "evidence_file": f"evidence/{pid}.json",
            "replay_cmd_template": "./run replay {path}",
            "engine": "eqlsa",
            "level_claimed": {"category": "other", "text": (s.level_text or s.explanation) + " Rules deciding the clauses (one line each in RULES.md): "
                              + ", ".join(dict.fromkeys(r.name for r in s.rules)) + ".", "design_ref": s.design_ref},
            "level_note": s.level_note or ("Trusted base: CPython's ast parser and the eqlsa engine in /verif. " + " ".join(s.assumptions)),
            "technique": s.technique or technique_of([r.name for r in s.rules]),
        })
    elif pid in NOT_APPLICABLE:
        na.append({"property_id": pid, "reason": NOT_APPLICABLE[pid]})
    else:
        na.append({"property_id": pid, "reason": "check not built yet (work in progress; DESIGN.md §2 describes the planned rule)"})
m = {
    "version": 1,
    "setup_cmd": "true",
    "hooks": {"guard": "EQL_VERIF", "enable": "none needed: the checks are static, they parse /repo's sources and never run them; no instrumentation exists in /repo",
              "baseline_off_cmd": "cd /repo && /venv/bin/python -m pytest -q -p no:cacheprovider --timeout=900 --continue-on-collection-errors",
              "source_commits": [], "add_only": True},
    "engines": [{"name": "eqlsa", "path": "eqlsa/", "serves_properties": sorted(specs),
                 "kind_free_text": "purpose-built static analyser (stdlib ast): program database with MRO/dataclass-field resolution, statement CFG with exceptional and generator-suspension edges, finite abstract interpretation, taint/provenance rules"}],
    "checks": checks,
    "notes": "Static analysis only (see DESIGN.md). Each check decides necessary structural clauses of its property, named in level_claimed.text; exit 2 + ANALYSIS-ERROR means the analysis could not decide (anchor vanished / idiom outside the accepted table), never a violation.",
    "not_applicable": na,
}
json.dump(m, open(os.path.join(HERE, "MANIFEST.json"), "w"), indent=1)
print(f"{len(checks)} checks, {len(na)} not applicable")
